#!/bin/bash
# tools/confirm_mutant.sh <worktree> <mutant-subdir>   e.g. /tmp/wt-C18-1 a
# Confirms, in the scratch worktree, that a seeded change (1) applies, (2) compiles, (3) keeps the existing tests green,
# and that its demonstration (4) fails with the change and (5) passes without it. Prints one CONFIRM line.
wt="$1"; m="$2"; d="$wt/MUTANT/$m"
export GOFLAGS=-mod=mod GOPROXY=off GOSUMDB=off GOTOOLCHAIN=local
cd "$wt" || exit 2
git checkout -q -- . 2>/dev/null
res="apply=?"
git apply --check "$d/patch.diff" 2>/dev/null || { echo "CONFIRM $d apply=FAIL"; exit 1; }
git apply "$d/patch.diff"
build=ok
(cd v2 && go build ./... 2>&1 | grep -v "main_main\|^#" | grep -q . ) && build=FAIL
(go build ./... 2>&1 | grep -v "main_main\|^#" | grep -q . ) && build=FAIL
tests=ok
t1=$(cd v2 && go test -count=1 ./... 2>&1 | grep -v "internal/tests\|no test files" | grep -c "^FAIL[[:space:]][[:graph:]]\|^--- FAIL\|^panic:")
t2=$(go test -count=1 ./... 2>&1 | grep -v "internal/tests\|no test files\|/MUTANT/" | grep -c "^FAIL[[:space:]][[:graph:]]\|^--- FAIL\|^panic:")
[ "$t1" != 0 ] || [ "$t2" != 0 ] && tests="FAIL($t1,$t2)"
run=$(ls "$d"/demo/run.sh 2>/dev/null)
with="?"; without="?"
if [ -n "$run" ]; then
  (cd "$d/demo" && timeout 900 sh ./run.sh >/tmp/confirm-with.$$ 2>&1); with=$?
  git apply -R "$d/patch.diff"
  (cd "$d/demo" && timeout 900 sh ./run.sh >/tmp/confirm-without.$$ 2>&1); without=$?
else
  git apply -R "$d/patch.diff"
fi
git checkout -q -- . 2>/dev/null
echo "CONFIRM $d apply=ok build=$build tests=$tests demo_with_change_exit=$with demo_without_change_exit=$without"
rm -f /tmp/confirm-with.$$ /tmp/confirm-without.$$
