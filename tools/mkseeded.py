#!/usr/bin/env python3
"""Copies confirmed seeded changes from the sub-agents' scratch worktrees into /verif/seeded/<id>/ and writes meta.json + INDEX.md.
The table below is maintained by hand from the tools/trymutant.sh and tools/confirm_mutant.sh results."""
import json, os, shutil, subprocess, sys
HERE = os.path.dirname(os.path.dirname(os.path.abspath(__file__)))
# id, source dir, property, what it needs to manifest, detected by (check: oracle/signature), first missed?, note
T = [
 ("C02-1a", "/tmp/wt-C02-1/MUTANT/a", "C02", "a string whose content is exactly two apostrophes ('' is also the ROR2 empty-string token): path key, query parameter, batch key or created id", "C02: arg-mismatch (key '' arrives as \"\")", "", ""),
 ("C02-1b", "/tmp/wt-C02-1/MUTANT/b", "C02", "a batch call on a collection keyed by a pointer-typed (complex) key: LocateOriginalKey returns the re-decoded copy instead of the caller's key", "C16: key-identity:Results (pointer identity of result keys)", "", "C02's own check does not own the key-identity oracle (it is C16's clause); C16 reports it in 10 s"),
 ("C04-1a", "/tmp/wt-C04-1/MUTANT/a", "C04", "a complete JSON object followed by non-blank bytes (request body or response body): the only trailing-bytes check never runs", "C04: malformed-response-accepted / malformed-body-accepted (structural JSON validator written from the grammar)", "missed by the first version of the C04 oracle (it never demanded a rejection); caught after adding independent well-formedness oracles", ""),
 ("C04-1b", "/tmp/wt-C04-1/MUTANT/b", "C04", "an unclosed '(' in an entity path segment, relying on ValidateRor2Input accepting unclosed parentheses", "obsolete", "", "OBSOLETE: the premise (unclosed '(' passes ValidateRor2Input) was repaired in /repo by the fix 'ROR2 input with unclosed parentheses passed validation'; with that fix the change is behaviour-neutral. Before the fix the C04 check missed it because its recovered-panic signature collided with a listed known finding; the signature now includes the panic class and the method kind."),
 ("C05-1a", "/tmp/wt-C05-1/MUTANT/a", "C05", "Handler() taken while a path node has an empty finders/actions/sub-resources map, then a finder/action/sub-resource registered on that existing node, then a request for it sent to the old handler (also a map race with concurrent traffic)", "C05: late-registration-status / late-registration-visible; C17: race receive|RegisterResource", "missed at first (late registration only added new root resources); caught after late registration prefers resources below an already known root", ""),
 ("C05-1b", "/tmp/wt-C05-1/MUTANT/b", "C05", "a collection that has a simple resource among its ancestors, addressed with an entity key (/single/items/7)", "C05 and C02: not-dispatched:collection.Update:400", "missed at first (the binding family had no collection below a simple resource); adding fam.single.items also exposed a genuine generator defect (fixed)", ""),
 ("C07-1a", "/tmp/wt-C07-1/MUTANT/a", "C07", "decoders told to ignore leading scope (batch create/update, partial update): IsKeyExcluded no longer drops the leading scope", "C07: not-dispatched:collection.BatchUpdate:400 (stripped create-only required field reported missing)", "missed at first because a sibling property's oracle (filed under C02) stopped the workers early; caught after foreign oracles became non-fatal and C07 owns fidelity oracles in its batches", ""),
 ("C07-1b", "/tmp/wt-C07-1/MUTANT/b", "C07", "a wholly read-only record-typed field touched through its nested partial-update struct", "C07: excluded-not-refused:BatchPartialUpdate", "missed at first (no wholly excluded record field in the family); caught after adding read-only 'audit'", ""),
 ("C08-1a", "/tmp/wt-C08-1/MUTANT/a", "C08", "an ErrorResponse without status returned from create/update/partial_update/delete (methods that pre-set a success status)", "C08: error-field / error-status", "", ""),
 ("C08-1b", "/tmp/wt-C08-1/MUTANT/b", "C08", "a panic inside an action implementation (recover moved next to the implementation call, actions forgotten)", "C08: handler-panic:resource-panic", "", ""),
 ("C09-1a", "/tmp/wt-C09-1/MUTANT/a", "C09", "a serialization that fails half-way (pooled scratch writers returned dirty), followed by any valid serialization", "C09: request-bytes-differ", "missed at first (no failing serialization in the scenario); caught after injecting an entity with an illegal enum constant before permuted executions", ""),
 ("C09-1b", "/tmp/wt-C09-1/MUTANT/b", "C09", "out-of-order outer map keys with an empty nested map after the out-of-order point (sort skipped by a stale in-order flag)", "C09: request-bytes-differ:body", "", ""),
 ("C12-1a", "/tmp/wt-C12-1/MUTANT/a", "C12", "types moved to conflictResolution by a namespace cycle, with clashing names that share the last namespace segment; override names then depend on map iteration order", "C12: nondeterministic-output:BetaModelNode.gr.go", "missed at first (no cycle/clash in the family); caught after adding fam.alpha.model.Node / fam.beta.model.Node", ""),
 ("C12-1b", "/tmp/wt-C12-1/MUTANT/b", "C12", "a record with both a required field and a non-optional defaulted field (CollectionMetadata in the checked-in manifest)", "C12: checked-in-differs:CollectionMetadata.gr.go", "", ""),
 ("C14-1a", "/tmp/wt-C14-1/MUTANT/a", "C14", "two tunnelled requests with a body alive at once (pooled multipart buffer aliased by the returned body)", "C14: not-dispatched (400 multipart: NextPart: EOF on the tunnelled twin)", "missed at first (no scheduling point between building and sending a request); caught after yields in the ExtraRequestHeaders hook and at the start of RoundTrip", ""),
 ("C14-1b", "/tmp/wt-C14-1/MUTANT/b", "C14", "a tunnelled multipart request whose body part is missing (the nil-body marker can no longer fire)", "C14: damaged-tunnel-dispatched:tunnel-drop-body-part", "", ""),
 ("C16-1a", "/tmp/wt-C16-1/MUTANT/a", "C16", "complex keys with $params: SimpleKey arm taken before ComplexKey arm, so keys equal up to params are not duplicates any more", "C16: duplicate-not-refused:BatchGet", "", ""),
 ("C16-1b", "/tmp/wt-C16-1/MUTANT/b", "C16", "two requested keys in the same 32-bit FNV-1a bucket (lost break: the last key of the bucket is returned)", "C16: result-mismatch:BatchDelete:ret0.Errors (entry filed under the colliding key)", "missed at first because a sibling oracle stopped the workers early; caught after foreign oracles became non-fatal", ""),
 ("C17-1a", "/tmp/wt-C17-1/MUTANT/a", "C17", "two concurrent requests to the same method with query parameters (queryParams variable hoisted out of the per-request closure)", "C17: race in registerMethod", "", ""),
 ("C17-1b", "/tmp/wt-C17-1/MUTANT/b", "C17", "a host leaving the cluster while a resolver iterates the snapshot (delete in place, lost copy)", "C19: snapshot-mutated; C17: race handleUriUpdate vs a reader of the published snapshot", "C17 missed it at first (the semantic oracle of C19 stopped the workers); caught after foreign oracles became non-fatal and reads of published data by the harness count as reads", ""),
 ("C18-1a", "/tmp/wt-C18-1/MUTANT/a", "C18", "a Store parked on the in-flight placeholder, woken before the computed value is published (Done before Store)", "C18: linearizability (porcupine)", "", ""),
 ("C18-1b", "/tmp/wt-C18-1/MUTANT/b", "C18", "two first-time callers inside the window between a Load check and the placeholder Store (check-then-act)", "C18: linearizability / double-compute", "", ""),
 ("C19-1a", "/tmp/wt-C19-1/MUTANT/a", "C19", "a delete of a tracked node while somebody still holds the previous snapshot (delete before copy)", "C19: snapshot-mutated", "", ""),
 ("C19-1b", "/tmp/wt-C19-1/MUTANT/b", "C19", "scheme priorities configured, hosts of another scheme announced, unequal or zero weights (weight sum stops at the first non-eligible host)", "C19: selection (zero-weight host chosen) / proportion", "", ""),
 ("C20-1a", "/tmp/wt-C20-1/MUTANT/a", "C20", "foreign files named *.gr.<ext> (fixtures.gr.json, NOTES.gr.md, Model.gr.go~)", "C20: monitor:remove:other-file", "missed at first (look-alike names in the generated trees were too few); caught after adding them", ""),
 ("C20-1b", "/tmp/wt-C20-1/MUTANT/b", "C20", "a surviving directory whose alphabetically last subdirectory vanishes and whose parent has nothing else that survives (RemoveAll on a wrongly 'empty' directory)", "C20: monitor:removeall (non-empty directory)", "", ""),
]
os.makedirs(os.path.join(HERE, "seeded"), exist_ok=True)
rows = []
for sid, src, prop, needs, caught, first, note in T:
    dst = os.path.join(HERE, "seeded", sid)
    if os.path.isdir(src):
        shutil.rmtree(dst, ignore_errors=True)
        os.makedirs(dst)
        shutil.copy(os.path.join(src, "patch.diff"), dst)
        if os.path.isdir(os.path.join(src, "demo")):
            shutil.copytree(os.path.join(src, "demo"), os.path.join(dst, "demo"), ignore=shutil.ignore_patterns("generated", "gen-out", "*.test", "out"))
        if os.path.exists(os.path.join(src, "notes.md")):
            shutil.copy(os.path.join(src, "notes.md"), dst)
    meta = {"id": sid, "breaks_property": prop, "needs_to_manifest": needs, "produced_by": "fresh sub-agent given only the property text and a scratch worktree",
            "confirmed": "tools/confirm_mutant.sh in the scratch worktree: patch applies to the pinned tree (+ fix commits), both modules build, existing tests green, demonstration fails with the change and passes without it",
            "ran": "tools/trymutant.sh seeded/%s/patch.diff %s  (git -C /repo apply; ./check <id> quick; git -C /repo apply -R)" % (sid, prop),
            "detected_by": caught, "history": first, "note": note}
    if os.path.isdir(dst):
        json.dump(meta, open(os.path.join(dst, "meta.json"), "w"), indent=1)
    rows.append(meta)
with open(os.path.join(HERE, "seeded", "INDEX.md"), "w") as f:
    f.write("# Seeded changes and the checks that catch them\n\n| id | breaks | needs | detected by | history |\n|---|---|---|---|---|\n")
    for m in rows:
        f.write("| %s | %s | %s | %s | %s %s |\n" % (m["id"], m["breaks_property"], m["needs_to_manifest"], m["detected_by"], m["history"], m["note"]))
print(len(rows), "seeded changes")
