#!/bin/bash
# tools/trymutant.sh <patch.diff> <property-id> [<property-id>...]
# Applies a seeded change to /repo, runs the quick checks of the given properties, undoes the change.
set -u
patch="$1"; shift
REPO=${VERIF_REPO:-/repo}
cd "${VERIF_DIR:-/verif}"
if ! git -C "$REPO" apply --check "$patch" 2>/dev/null; then
  echo "RESULT patch=$patch DOES-NOT-APPLY"; exit 3
fi
git -C "$REPO" apply "$patch" || { echo "RESULT patch=$patch APPLY-FAILED"; exit 3; }
trap 'git -C "$REPO" apply -R "$patch" 2>/dev/null || git -C "$REPO" checkout -- . ; git -C "$REPO" status --short | head -3' EXIT
for p in "$@"; do
  t0=$(date +%s)
  out=$(VERIF_SEED=${VERIF_SEED:-1} ./check "$p" ${TIER:-quick} 2>&1)
  code=$?
  t1=$(date +%s)
  v=$(echo "$out" | grep -m1 "^VIOLATION" || true)
  d=$(echo "$out" | grep -A2 -m1 "^VIOLATION" | tail -2 | cut -c1-400 | tr '\n' ' ')
  echo "RESULT patch=$patch check=$p exit=$code secs=$((t1-t0)) $v"
  [ -n "$v" ] && echo "   $d"
  [ $code = 2 ] && echo "$out" | tail -8
done
rm -rf replays
