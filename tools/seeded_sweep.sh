#!/bin/bash
# tools/seeded_sweep.sh — sensitivity regression: every kept seeded change is applied to the repository copy named by
# VERIF_REPO (default /repo; use a snapshot: `vp run --with-repo -- sh -c 'VERIF_DIR=$PWD VERIF_REPO=$VP_RUN_REPO tools/seeded_sweep.sh'`),
# the quick check of the property that is meant to catch it is run, and the change is undone.
cd "${VERIF_DIR:-/verif}"
for d in seeded/*/; do
  id=$(basename "$d")
  [ -f "$d/meta.json" ] || continue
  if [ -n "${SWEEP_FILTER:-}" ] && ! echo "$id" | grep -Eq "$SWEEP_FILTER"; then continue; fi
  grep -q '"detected_by": "obsolete"' "$d/meta.json" && { echo "SWEEP $id obsolete"; continue; }
  grep -q '"detected_by": "not judged' "$d/meta.json" && { echo "SWEEP $id not-judged (stated limitation)"; continue; }
  if grep -q '"detected_by": "not detected' "$d/meta.json"; then
    # a change that does NOT break the property as stated (kept as a negative example): the check must stay quiet
    prop=$(python3 -c "import json;print(json.load(open('$d/meta.json'))['breaks_property'])")
    r=$(tools/trymutant.sh "$PWD/$d/patch.diff" "$prop" 2>&1 | grep "^RESULT" | head -1)
    case "$r" in
      *DOES-NOT-APPLY*|*APPLY-FAILED*) echo "SWEEP $id stale: the patch no longer applies (a later fix: commit rewrote lines it touches); it was judged against the /repo of its wave" ;;
      *"exit=0"*) echo "SWEEP $id quiet-as-expected ($prop)" ;;
      *) echo "SWEEP $id FALSE-ALARM by $prop :: $r" ;;
    esac
    continue
  fi
  prop=$(python3 -c "import json,re;m=json.load(open('$d/meta.json'));print(re.match(r'(C\d+)', m['detected_by']).group(1))")
  senv=$(python3 -c "import json;print(json.load(open('$d/meta.json')).get('sweep_env',''))")
  r=$(env $senv tools/trymutant.sh "$PWD/$d/patch.diff" "$prop" 2>&1 | grep "^RESULT" | head -1)
  case "$r" in
    *DOES-NOT-APPLY*|*APPLY-FAILED*) echo "SWEEP $id STALE-PATCH (re-base it): $r" ;;
    *"exit=1"*VIOLATION*) echo "SWEEP $id caught-by $prop" ;;
    *) echo "SWEEP $id NOT-CAUGHT by $prop :: $r" ;;
  esac
done
echo SWEEP-DONE
