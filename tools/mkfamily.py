#!/usr/bin/env python3
"""Writes the simulator's binding family: family/family.manifest.json (input of the
go-restli generator, which is always the one from /repo's current tree) and
family/glue.go.txt (a Go file copied into the scratch module that lists the generated
resources for the reflective driver). Run by hand when the family changes; both
outputs are committed."""
import json, os
HERE = os.path.dirname(os.path.dirname(os.path.abspath(__file__)))
ROOT = "vscratch/fam"

def prim(p): return {"primitive": p}
def ref(name, ns="fam"): return {"reference": {"name": name, "namespace": ns}}
def arr(t): return {"array": t}
def mp(t): return {"map": t}
def field(name, t, optional=False, default=None):
    f = {"name": name, "doc": "", "type": t, "isOptional": optional}
    if default is not None:
        f["defaultValue"] = default
    return f
def named(name, ns="fam"): return {"name": name, "namespace": ns, "sourceFile": "family", "doc": ""}
def record(name, fields, includes=(), ns="fam"):
    r = named(name, ns); r["includes"] = [{"name": i, "namespace": "fam"} for i in includes]; r["fields"] = fields
    return {"record": r}

types = [
    {"enum": dict(named("Color"), Symbols=["RED", "GREEN", "BLUE"], SymbolToDoc={})},
    {"fixed": dict(named("Fx"), Size=4)},
    {"typeref": dict(named("Name"), type="string", isCustom=False)},
    # custom typerefs: hand-written Go (family/custom/fam/*.go) is placed beside the generated code before generation
    {"typeref": dict(named("Temp"), type="int32", isCustom=False)},
    {"typeref": dict(named("Stamp"), type="string", isCustom=False)},
    record("Inner", [field("a", prim("string")), field("b", prim("int64"), optional=True)]),
    {"standaloneUnion": dict(named("Choice"), Union={"HasNull": False, "Members": [
        {"Type": prim("int32"), "Alias": "int"},
        {"Type": prim("string"), "Alias": "str"},
        {"Type": ref("Inner"), "Alias": "rec"},
        {"Type": arr(prim("string")), "Alias": "arr"},
        {"Type": mp(prim("int64")), "Alias": "map"},
    ]})},
    record("Prims", [
        field("i32", prim("int32")), field("i64", prim("int64")), field("f32", prim("float32")), field("f64", prim("float64")),
        field("b", prim("bool")), field("s", prim("string")), field("by", prim("bytes")),
        field("oi32", prim("int32"), optional=True), field("os", prim("string"), optional=True), field("oby", prim("bytes"), optional=True),
        field("of64", prim("float64"), optional=True), field("ob", prim("bool"), optional=True),
        field("di32", prim("int32"), default="7"), field("ds", prim("string"), default='"dflt"'),
    ]),
    record("Nested", [
        field("name", ref("Name")),
        field("color", ref("Color")),
        field("fx", ref("Fx"), optional=True),
        field("inners", arr(ref("Inner"))),
        field("byName", mp(ref("Inner")), optional=True),
        field("choice", ref("Choice"), optional=True),
        field("strs", arr(prim("string")), optional=True),
        field("m", mp(prim("string"))),
        field("mm", mp(mp(prim("int32"))), optional=True),
        field("dflt", prim("int64"), default="42"),
        field("temp", ref("Temp"), optional=True),
        field("stamps", arr(ref("Stamp")), optional=True),
    ], includes=["Inner"]),
    record("Outer", [field("audit", ref("Inner"), optional=True), field("tags", arr(ref("Inner")), optional=True), field("attrs", mp(ref("Inner")), optional=True), field("label", prim("string"), optional=True)]),
    record("Annotated", [
        field("id", prim("int64"), optional=True),
        field("created", prim("string"), optional=True),
        field("inner", ref("Inner"), optional=True),
        field("items", arr(ref("Inner")), optional=True),
        field("attrs", mp(ref("Inner")), optional=True),
        field("free", prim("string")),
        field("audit", ref("Inner"), optional=True),
        field("deep", ref("Outer"), optional=True),
    ]),
    # excluded sibling fields of which one name is a string prefix of the other (id / idx, name / nameSuffix)
    record("Pfx", [field("id", prim("int64"), optional=True), field("idx", prim("int64"), optional=True), field("name", prim("string")), field("nameSuffix", prim("string"), optional=True), field("free", prim("string"), optional=True)]),
    # a record that includes a record living in ANOTHER namespace (hence another Go package): the embedded
    # partial-update helper structs have to be qualified and imported
    record("Doc", [field("title", prim("string")), field("pages", prim("int32"), optional=True)], includes=["Inner"], ns="fam.docs"),
    # a record whose only annotated field is a REQUIRED create-only one (no read-only field on its resource)
    record("CoOnly", [field("sku", prim("string")), field("note", prim("string"), optional=True), field("inner", ref("Inner"), optional=True)]),
    record("KeyPart", [field("a", prim("string")), field("b", prim("int64"))]),
    record("ParamPart", [field("p", prim("string"), optional=True), field("q", prim("int32"), optional=True)]),
    {"complexKey": dict(named("CK"), Key={"name": "KeyPart", "namespace": "fam"}, Params={"name": "ParamPart", "namespace": "fam"})},
    record("Meta", [field("total", prim("int32")), field("note", prim("string"), optional=True)]),
    # a namespace cycle with clashing type names that share their last namespace segment: exercises cycle
    # detection (types move to the conflictResolution package) and clash renaming in the generator
    record("Node", [field("label", prim("string")), field("peer", ref("Node", "fam.beta.model"), optional=True)], ns="fam.alpha.model"),
    record("Node", [field("weight", prim("int32")), field("back", ref("Node", "fam.alpha.model"), optional=True)], ns="fam.beta.model"),
    # a package cycle with a second entry point: p.A1 -> q.B -> p.A2, and p.C -> q.B
    record("A1", [field("b", ref("B", "fam.cyc.q"), optional=True), field("x", prim("string"))], ns="fam.cyc.p"),
    record("A2", [field("y", prim("int32"))], ns="fam.cyc.p"),
    record("C", [field("b", ref("B", "fam.cyc.q"), optional=True)], ns="fam.cyc.p"),
    record("B", [field("a2", ref("A2", "fam.cyc.p"), optional=True)], ns="fam.cyc.q"),
    # a package cycle that is not a type cycle, whose middle type sorts BEFORE the type that enters it:
    # r.Order -> m.Customer -> r.Address (a cycle search that remembers "this type closes no cycle" across
    # starting points misses it and the generated packages import each other)
    record("Order", [field("customer", ref("Customer", "fam.cyc.m"), optional=True), field("total", prim("int32"))], ns="fam.cyc.r"),
    record("Customer", [field("address", ref("Address", "fam.cyc.r"), optional=True), field("name", prim("string"))], ns="fam.cyc.m"),
    record("Address", [field("street", prim("string"))], ns="fam.cyc.r"),
    record("Holder", [field("a", ref("Node", "fam.alpha.model"), optional=True), field("b", ref("Node", "fam.beta.model"), optional=True), field("tag", prim("string"))]),
]

def m(name, on_entity, return_entity=False, params=(), paging=False):
    return {"methodType": "REST_METHOD", "name": name, "doc": "", "onEntity": on_entity, "params": list(params),
            "isPagingSupported": paging, "returnEntity": return_entity}
def finder(name, params=(), paging=False, schema=None, metadata=None):
    f = {"methodType": "FINDER", "name": name, "doc": "", "onEntity": False, "params": list(params), "isPagingSupported": paging,
         "return": schema, "returnEntity": False}
    if metadata: f["metadata"] = metadata
    return f
def action(name, params=(), ret=None, on_entity=False):
    a = {"methodType": "ACTION", "name": name, "doc": "", "onEntity": on_entity, "params": list(params), "isPagingSupported": False,
         "returnEntity": False}
    if ret: a["return"] = ret
    return a

ALL_REST = lambda re=False: [m("get", True), m("create", False, re), m("update", True), m("partial_update", True, re), m("delete", True),
            m("get_all", False, paging=True), m("batch_get", False), m("batch_create", False, re), m("batch_update", False),
            m("batch_partial_update", False), m("batch_delete", False)]

def resource(ns, segments, schema, methods, ro=(), co=()):
    return {"namespace": ns, "doc": "", "sourceFile": "family",
            "resourcePathSegments": [{"resourceName": n, "pathKey": ({"name": k[0], "type": k[1]} if k else None)} for n, k in segments],
            "resourceSchema": schema, "readOnlyFields": list(ro), "createOnlyFields": list(co), "methods": methods}

resources = [
    resource("fam.prims", [("prims", ("id", prim("int64")))], ref("Prims"), ALL_REST() + [
        finder("byS", [field("s", prim("string")), field("n", prim("int32"), optional=True)], paging=True, schema=ref("Prims")),
        finder("plain", [], paging=False, schema=ref("Prims")),
        finder("withMeta", [field("tags", arr(prim("string")))], paging=True, schema=ref("Prims"), metadata=ref("Meta")),
        action("echo", [field("s", prim("string")), field("inner", ref("Inner"), optional=True)], ret=prim("string")),
        action("ping", []),
        action("touch", [field("n", prim("int64"))], ret=ref("Inner"), on_entity=True),
    ]),
    resource("fam.strs", [("strs", ("k", prim("string")))], ref("Nested"), [dict(x, params=[field("view", prim("string"), optional=True), field("n", prim("int32"), optional=True)]) if x["name"] in ("batch_get", "batch_update", "batch_delete", "get") else x for x in ALL_REST()]),
    resource("fam.byname", [("byName", ("name", ref("Name")))], ref("Nested"), ALL_REST(True)),
    resource("fam.bycolor", [("byColor", ("color", ref("Color")))], ref("Inner"), [m("get", True), m("update", True), m("delete", True), m("batch_get", False), m("batch_delete", False)]),
    resource("fam.bytemp", [("byTemp", ("t", ref("Temp")))], ref("Inner"), [m("get", True), m("create", False), m("update", True), m("delete", True), m("batch_get", False), m("batch_update", False), m("batch_delete", False),
        finder("near", [field("t", ref("Temp")), field("stamp", ref("Stamp"), optional=True)], schema=ref("Inner"))]),
    resource("fam.cks", [("cks", ("ck", ref("CK")))], ref("Nested"), ALL_REST()),
    resource("fam.single", [("single", None)], ref("Nested"), [m("get", False), m("update", False), m("partial_update", False), m("delete", False),
        action("reset", [field("hard", prim("bool"))], ret=prim("int32"))]),
    resource("fam.acts", [("acts", None)], None, [action("sum", [field("a", prim("int64")), field("b", prim("int64"))], ret=prim("int64")),
        action("noop", []), action("mk", [field("names", arr(prim("string")))], ret=arr(ref("Inner"))),
        # a parameter with a default value (the params struct then needs the default-population code of a record)
        action("bump", [field("by", prim("int32"), default="5"), field("label", prim("string"), optional=True)], ret=prim("int32"))]),
    # a root collection WITHOUT sub-resources and without any entity-level REST method, whose only entity-level entry is
    # an action: whatever decides "is there anything below /pings/" must not look at the REST methods alone
    resource("fam.pings", [("pings", ("id", prim("int64")))], ref("Inner"),
        [m("create", False), m("batch_get", False), finder("byA", [field("a", prim("string"))], schema=ref("Inner")),
         action("ping", [field("x", prim("string"))], ret=prim("string"), on_entity=True), action("tally", [], ret=prim("int32"))]),
    resource("fam.prims.subs", [("prims", ("id", prim("int64"))), ("subs", ("sub", prim("string")))], ref("Inner"),
        [m("get", True), m("create", False), m("update", True), m("delete", True), m("get_all", False, paging=True), m("batch_get", False),
         finder("byA", [field("a", prim("string"))], schema=ref("Inner")), action("poke", [field("x", prim("string"))], ret=prim("string"), on_entity=True)]),
    resource("fam.prims.one", [("prims", ("id", prim("int64"))), ("one", None)], ref("Inner"), [m("get", False), m("update", False), m("delete", False)]),
    resource("fam.single.items", [("single", None), ("items", ("item", prim("int64")))], ref("Inner"),
        [m("get", True), m("create", False), m("update", True), m("delete", True), m("get_all", False, paging=True), m("batch_get", False),
         finder("byA", [field("a", prim("string"))], schema=ref("Inner")), action("poke", [field("x", prim("string"))], ret=prim("string"), on_entity=True),
         action("sweep", [], ret=prim("int32"))]),
    resource("fam.holders", [("holders", ("id", prim("string")))], ref("Holder"), [m("get", True), m("create", False), m("update", True), m("batch_get", False), m("get_all", False)]),
    resource("fam.annotated", [("annotated", ("id", prim("int64")))], ref("Annotated"),
        [m("get", True), m("create", False), m("batch_create", False), m("update", True), m("batch_update", False), m("partial_update", True), m("batch_partial_update", False)],
        ro=["id", "inner/b", "items/*/b", "audit", "deep/audit/b", "deep/tags/*/b"], co=["created", "attrs/*/a", "deep/attrs/*/b"]),
    resource("fam.annotatedre", [("annotatedRe", ("id", prim("string")))], ref("Annotated"),
        [m("get", True), m("create", False, True), m("batch_create", False, True), m("update", True), m("partial_update", True, True), m("batch_partial_update", False)],
        ro=["id", "inner/b", "items/*/b", "audit", "deep/audit/b", "deep/tags/*/b"], co=["created", "attrs/*/a", "deep/attrs/*/b"]),
    resource("fam.docs", [("docs", ("id", prim("int64")))], ref("Doc", "fam.docs"),
        [m("get", True), m("create", False), m("update", True), m("partial_update", True), m("batch_partial_update", False), m("batch_get", False)]),
    # path keys whose names are not usable as Go identifiers as they stand: a keyword, and the name of a package
    # every generated resource file imports
    resource("fam.kw", [("kw", ("type", prim("int64")))], ref("Inner"), [m("get", True), m("update", True), m("delete", True), m("batch_get", False)]),
    resource("fam.kw.sub", [("kw", ("type", prim("int64"))), ("sub", ("restli", prim("string")))], ref("Inner"), [m("get", True), m("create", False), m("get_all", False)]),
    resource("fam.pfx", [("pfx", ("k", prim("int64")))], ref("Pfx"),
        [m("get", True), m("create", False), m("batch_create", False), m("update", True), m("batch_update", False), m("partial_update", True), m("batch_partial_update", False)],
        ro=["id", "idx"], co=["name", "nameSuffix"]),
    # one kind of annotation only: the generator picks the exclusion set per method from which lists are non-empty
    resource("fam.coonly", [("coOnly", ("id", prim("int64")))], ref("CoOnly"),
        [m("get", True), m("create", False), m("batch_create", False), m("update", True), m("batch_update", False), m("partial_update", True), m("batch_partial_update", False)],
        ro=[], co=["sku", "inner/a"]),
    resource("fam.roonly", [("roOnly", ("id", prim("int64")))], ref("Annotated"),
        [m("get", True), m("create", False), m("batch_create", False), m("update", True), m("batch_update", False), m("partial_update", True), m("batch_partial_update", False)],
        ro=["id", "inner/b", "audit"], co=[]),
]

manifest = {"packageRoot": ROOT, "inputDataTypes": types, "dependencyDataTypes": [], "resources": resources}
os.makedirs(os.path.join(HERE, "family"), exist_ok=True)
with open(os.path.join(HERE, "family", "family.manifest.json"), "w") as f:
    json.dump(manifest, f, indent=1); f.write("\n")

# ---- the same family as a spec for the ROOT module's generator --------------------------
# (same JSON shapes under other top-level names; the root module knows neither custom typerefs - Temp and Stamp are
# plain typerefs there - nor partial_update with returnEntity)
import copy
rres = copy.deepcopy(resources)
for r in rres:
    for me in r["methods"]:
        if me.get("name") == "partial_update" and me.get("returnEntity"):
            me["returnEntity"] = False
# The root generator has no remedy for clashing type names inside a namespace cycle (both fam.alpha.model.Node and
# fam.beta.model.Node land in conflictResolution/Node.gr.go, the later write wins: a finding of its own, kept in
# clash.root.spec.json). In the family the second one is renamed so that everything else can be explored.
def rename_beta_node(x):
    if isinstance(x, dict):
        if x.get("name") == "Node" and x.get("namespace") == "fam.beta.model":
            x["name"] = "NodeB"
        for v in x.values():
            rename_beta_node(v)
    elif isinstance(x, list):
        for v in x:
            rename_beta_node(v)
rtypes = copy.deepcopy(types)
clash = [t for t in copy.deepcopy(types) if list(t.values())[0].get("name") in ("Node", "Holder")]
rename_beta_node(rtypes)
rename_beta_node(rres)
with open(os.path.join(HERE, "family", "root.spec.json"), "w") as f:
    json.dump({"packageRoot": ROOT, "dataTypes": rtypes, "resources": rres}, f, indent=1); f.write("\n")
with open(os.path.join(HERE, "family", "clash.root.spec.json"), "w") as f:
    json.dump({"packageRoot": "vscratch/clash", "dataTypes": clash, "resources": []}, f, indent=1); f.write("\n")

# ---- the small manifest used by the generator-under-faults scenario (S6) ----
small = {"packageRoot": "vscratch/small", "dependencyDataTypes": [],
         "inputDataTypes": [t for t in types if list(t.values())[0]["name"] in ("Color", "Inner", "Meta", "Name")],
         "resources": [resource("fam.things", [("things", ("id", prim("int64")))], ref("Inner"),
                                [m("get", True), m("create", False), m("batch_get", False),
                                 finder("byA", [field("a", prim("string"))], paging=True, schema=ref("Inner"), metadata=ref("Meta")),
                                 action("poke", [field("c", ref("Color"))], ret=ref("Name"))])]}
with open(os.path.join(HERE, "family", "small.manifest.json"), "w") as f:
    json.dump(small, f, indent=1); f.write("\n")
with open(os.path.join(HERE, "family", "small.root.spec.json"), "w") as f:
    json.dump({"packageRoot": small["packageRoot"], "dataTypes": small["inputDataTypes"], "resources": small["resources"]}, f, indent=1); f.write("\n")

# ---- glue ------------------------------------------------------------------------------
def pkgpath(ns): return ROOT + "/" + ns.replace(".", "/")
lines = ["//go:build vscratch", "", "// Code generated by /verif/tools/mkfamily.py; DO NOT EDIT.", "", "package s4", "", "import (",
         '\t"github.com/PapaCharlie/go-restli/v2/restli"', '\t"reflect"', '\tcommon "github.com/PapaCharlie/go-restli/v2/restlidata/generated/com/linkedin/restli/common"', '\tfam "%s/fam"' % ROOT]
for i, r in enumerate(resources):
    lines.append('\tr%d "%s"' % (i, pkgpath(r["namespace"])))
    lines.append('\tr%dt "%s_test"' % (i, pkgpath(r["namespace"])))
lines += [")", "", "var Resources = []*ResDesc{"]
for i, r in enumerate(resources):
    segs = r["resourcePathSegments"]
    kind = "collection" if segs[-1]["pathKey"] else ("actionset" if r["resourceSchema"] is None else "simple")
    lines.append('\t{Name: %s, Path: %s, Kind: %s, Depth: %d, ReadOnly: %s, CreateOnly: %s,' % (json.dumps(r["namespace"]), json.dumps("/".join(s["resourceName"] for s in segs)), json.dumps(kind), len(segs),
                 "[]string{%s}" % ", ".join(json.dumps(x) for x in r["readOnlyFields"]), "[]string{%s}" % ", ".join(json.dumps(x) for x in r["createOnlyFields"])))
    lines.append('\t\tNewClient: func(c *restli.Client) interface{} { return r%d.NewClient(c) },' % i)
    lines.append('\t\tNewMock: func() interface{} { return &r%dt.MockResource{} },' % i)
    lines.append('\t\tRegister: func(s restli.Server, m interface{}) { r%d.RegisterResource(s, m.(*r%dt.MockResource)) }},' % (i, i))
lines += ["}", "", "// Defaults lists, per record type with schema defaults, its default-populated constructor.",
          "var Defaults = map[reflect.Type]func() interface{}{"]
for t in types:
    if "record" in t and any("defaultValue" in f for f in t["record"]["fields"]):
        n = t["record"]["name"]
        lines.append('\treflect.TypeOf(fam.%s{}): func() interface{} { return fam.New%sWithDefaultValues() },' % (n, n))
# the params struct of an action is decoded like a record: a parameter left unset comes back with its default
for i, r in enumerate(resources):
    for me in r["methods"]:
        if me["methodType"] == "ACTION" and any("defaultValue" in f for f in me["params"]):
            n = me["name"][0].upper() + me["name"][1:] + "ActionParams"
            lines.append('\treflect.TypeOf(r%d.%s{}): func() interface{} { return r%d.New%sWithDefaultValues() },' % (i, n, i, n))
lines.append('\treflect.TypeOf(common.CollectionMetadata{}): func() interface{} { return common.NewCollectionMetadataWithDefaultValues() },')
lines += ["}", ""]
with open(os.path.join(HERE, "family", "glue.go.txt"), "w") as f:
    f.write("\n".join(lines))
print("family: %d types, %d resources" % (len(types), len(resources)))
