#!/usr/bin/env python3
"""Regenerates /verif/MANIFEST.json from the table below (run after claiming / dropping a property)."""
import json, os
HERE = os.path.dirname(os.path.dirname(os.path.abspath(__file__)))
ENV = "GOFLAGS=-mod=mod GOPROXY=off GOSUMDB=off GOTOOLCHAIN=local"

NA = {
 "C01": "pure function of (schema, value): no schedule, clock, fault, peer or iteration order enters decode(encode(v)); out of the deterministic-simulation family (DESIGN.md §4 C01)",
 "C03": "differential comparison of pure encoders/decoders against a second implementation; nothing for a scheduler or a fault to act on",
 "C06": "property of a single pure decode call over deletion subsets of a document; its one exchange-level clause (lenient client) is exercised inside C02's scenario",
 "C10": "algebraic laws of pure Equals/hash functions over pairs and triples of values",
 "C11": "accept/reject boundary of pure marshal/unmarshal calls",
 "C13": "values of freshly constructed / decoded records; pure",
 "C15": "formatQueryUrl is a pure string function of (base URL, path, query)",
}

# id -> (engine, technique, level text, level note, design ref)
S4NOTE = "real: generated clients/servers (generated at check time by the generator from /repo), restli, restlicodec, batchkeyset, net/http above the transport incl. Request.Write/ReadRequest/ReadResponse and ServeMux; stub: TCP and the per-connection server loop (simulated transport), resource implementations (generated MockResource). Trusts the reference model (mock table + normalisations stated in the property texts) and the binding family as the bound on 'programs'."
S4TECH = "deterministic simulation with fault injection: seeded schedules of caller and server tasks over a simulated HTTP exchange (token kernel), faults from the choice stream, mock table as reference model; violations replayed and choice-list-minimised in fresh processes"

# id -> (engine, technique, level text, level note, design ref)
CHECKS = {
 "C02": ("token-kernel", S4TECH,
         "Seeded search over (resource, method, arguments, reply, mounting, resolver base, strict/lenient, schedule) with 1-4 concurrent callers; fault-free, mounting and lossy (request/response loss, truncation, cancellation, version-header loss) batches run separately: every delivered call invokes exactly the named resource method once with equal arguments and the client returns exactly what the resource returned; under lossy faults an error or exactly the model's value. Sampled, not exhaustive.",
         S4NOTE, "§4 C02, §2.4, §2.7"),
 "C04": ("token-kernel", S4TECH + "; one payload damage per exchange",
         "Exchange-level sentence only: seeded damages (truncate, insert metacharacter, replace, delete, duplicate) at drawn positions of request path keys, query, request body, response body and X-RestLi-Id: no panic escapes ServeHTTP, never a 5xx / recovered panic / stack trace for a request that resource code did not accept, at most one invocation, the client never panics, no task hangs (20 s watchdog). Sampled.",
         S4NOTE + " Decoder entry points not reachable over an HTTP exchange are not claimed.", "§4 C04"),
 "C05": ("token-kernel", S4TECH + "; header-stripping intermediary, recording/failing filters, damaged paths, late registration",
         "Exchange-level clauses: exactly-once dispatch to the method the generated client named; inference agrees with the client when X-RestLi-Method is stripped (POST to collections -> 400 untouched); damaged paths -> 404/400 with neither resource code nor filters running; filter order and context; late registration invisible to an earlier Handler(); all under bare / ServeMux / prefix mounting. Sampled.",
         S4NOTE + " The full verb x header x path table for foreign requests is a pure decision table and is not enumerated.", "§4 C05"),
 "C07": ("token-kernel", S4TECH + "; wire tap parsed with encoding/json; Byzantine client",
         "Exchange half: nothing at an excluded path leaves the generated client (wire tap), the resource sees the entity minus exactly the excluded paths, a patch touching an excluded leaf fails on the client with nothing sent, and a Byzantine client's body carrying such a value is answered 400 without the resource running. Sampled over the family's six paths.",
         S4NOTE, "§4 C07"),
 "C08": ("token-kernel", S4TECH + "; failing-resource faults and shared error objects",
         "Seeded search over resource outcomes {value, overridden status, ErrorResponse with any subset of fields, plain error, panic, typed-nil entity} x method kinds x 1-4 concurrent callers sharing error objects: error responses arrive field-equal with the right HTTP status and header, other failures become failure statuses carrying the message, never a crashed connection or a success; returned error objects are unchanged; success statuses follow the protocol defaults. Sampled.",
         S4NOTE, "§4 C08"),
 "C09": ("map-order-seam", "deterministic simulation of Go map iteration order: every range-over-map site of the v2 module is rewritten (build overlay) to iterate in a permutation drawn from the seeded choice stream; each call is serialized end to end under several permutations and key supply orders and compared byte for byte",
         "Seeded search over (call, arguments, reply) x map-order permutations at all 46 range-over-map sites x batch key supply orders: request line, query, headers and body and the response headers and body are byte-identical in every execution; JSON object keys, query parameter names and batch ids are in ascending order (checked with encoding/json and plain string splitting). Sampled.",
         S4NOTE + " Requests are handed to the handler in-process (no scheduler involved: the only nondeterminism here is iteration order).", "§4 C09"),
 "C12": ("genfs-processes", "deterministic simulation of the generator as OS processes: map iteration order from a seeded stream, file-system calls through a fault-injecting shim; trees compared byte for byte",
         "Determinism (every family / small / checked-in manifest regenerated in fresh processes under drawn map orders is byte-identical to the canonical-order tree), regeneration equivalence (checked-in v2/restlidata *.gr.go vs what the current generator produces from the checked-in manifest: byte for byte, and when the bytes differ, equivalence judged on compiled code - exported API listing plus a generated differential test of encodings, decodings, equality, hashes and defaults), convergence of regeneration over crashed or half-cleaned directories; the family and the small manifest generated by the current generator are built against the runtime (a compile error is a violation of C12). The same determinism / compile / crash batches run against the ROOT module's generator. Totality over the schema grammar is not claimed. Sampled.",
         "real: cmd.GenerateCode and codegen/* in one OS process per run; stub: os call path (sim/simos), map order (sim/simrt). Map ranges with pointer keys keep Go's order (none today, counted).", "§4 C12"),
 "C20": ("genfs-processes", "deterministic simulation with fault injection of the generator's file-system path: ownership monitor evaluated at every destructive call, seeded errors / torn writes / crashes at drawn call ordinals, workload continues after restart",
         "Seeded search over directory trees (depth <= 3, look-alike names, target absent or '.') x workloads of clean / generate processes x one injected fault (EACCES, ENOSPC, EIO, torn write, crash before / in / after a call): every remove / overwrite / create targets a path the generator owns or an empty directory at that instant, every foreign file stays byte-identical and reachable, clean is idempotent, a successful generate equals an undisturbed one, an injected error is never swallowed into an incomplete success; a user directory at a generated file's path may stop generation but is never cleared. One batch drives the ROOT module's generator and cleaner. Sampled.",
         "real: CleanTargetDir, WriteJenFile, GenerateCode as OS processes on a scratch directory; stub: os / ioutil call path of packages cmd and codegen/utils. Crash = exit at a call boundary or inside a torn write (the generator never syncs).", "§4 C20"),
 "C14": ("token-kernel", S4TECH + "; twin execution (tunnelling off vs threshold around the call's own query length)",
         "Twin execution of every call with thresholds {1, len-1, len, len+1, 10^6, off}: wire shape on both sides of the threshold, identical request view for routing/filters/resource after de-tunnelling, identical client results; damaged tunnelled requests -> 400 untouched. Sampled.",
         S4NOTE, "§4 C14"),
 "C16": ("token-kernel", S4TECH + "; adversarial key multisets and Byzantine batch replies",
         "Batch get/update/partial_update/delete over every key type of the family with duplicates under key equality (complex keys equal up to params), real 32-bit FNV-1a bucket collisions, metacharacter keys; replies with a dropped or an unrequested key: duplicates refused before sending, ids received as the same set, every entry under the caller's own key (pointer identity), unrequested key -> error. Sampled.",
         S4NOTE, "§4 C16"),
 "C17": ("token-kernel", "deterministic simulation: seeded serial schedules of real goroutines under the race detector (raw-pipe parking keeps TSan effective), per-request outcomes compared with the serial model",
         "Seeded search over interleavings of N tasks sharing one custom-typeref registry / one d2.Client (update loops + resolvers) / one handler and one client (mixed methods, shared error objects, late registration, lossy faults): zero race-detector reports and per-task results equal to the serial expectation on every explored schedule; plus the real d2.Client / TreeCache / ZooKeeper client against the simulated ensemble under -race in a go1.26.8 synctest bubble with seeded select order, run-queue order and wake-up preemption (runtime overlay); S4 batches also against the ROOT module. Race reports whose access stacks lie wholly inside a third-party dependency are counted, not reported. Sampled, not exhaustive.",
         "trusts the Go race detector (bounded history), the token kernel and the sync shim (each operation = yield + the real primitive); one channel send/receive per simulated message is the only harness-made happens-before edge", "§4 C17, §2.2"),
 "C18": ("token-kernel", "deterministic simulation: seeded schedules at the granularity of the real sync.Map/WaitGroup steps; porcupine linearizability check of every recorded history against a compute-if-absent map",
         "Seeded search over interleavings of 2-4 clients x 1-3 operations on the real lazymap; each history is checked with porcupine against a sequential model, plus at-most-once compute, no placeholder leak, no deadlock; also under the race detector. Sampled, not exhaustive.",
         "trusts porcupine v1.3.0, the sync shim (yield + real primitive) and the assumption that sync.Map / WaitGroup operations are the atomic steps", "§4 C18"),
 "C19": ("token-kernel", "deterministic simulation: seeded event histories pushed through the real update loops while resolver tasks interleave; reference-model fold, snapshot immutability monitor, selection oracle with simulator-owned map order and random source",
         "Seeded search over announcement histories x schedules x map orders x random draws (incl. 0 and 1-2^-53): every published snapshot is the fold of a history prefix, published snapshots never change, every resolution is a legal selection on a snapshot current during the call, even sweep is weight-proportional (S2, both modules). S3: the real d2.Client, TreeCache and go-zookeeper client against a simulated ensemble (jute protocol over net.Pipe, faithful setWatches / zxid ordering) in a go1.26.8 synctest bubble on a fake clock, with connection drops, session expiry, error replies, held and singly delivered notifications: resolvers return within the configured timeout bound and only announced hosts of allowed schemes; the tracked set equals the fold of what TreeCache emitted after every stimulus; and 600 virtual seconds after the last fault it equals the tree (bounded liveness) for every history of valid announcements. Sampled, not exhaustive.",
         "S2: ZooKeeper/TreeCache replaced by a channel feed (as in the repo's own tests); S3: only the ensemble, the clock and the choice of who runs are simulated (runtime overlay: select order, simultaneous timers, wake-up preemption). In-package access through an overlay-added export file; trusts the reference fold written from the property text", "§4 C19, §12"),
}

def main():
    checks = []
    for pid, (engine, tech, text, note, ref) in sorted(CHECKS.items()):
        checks.append({
            "property_id": pid,
            "quick_cmd": f"./check {pid} quick",
            "thorough_cmd": f"./check {pid} thorough",
            "evidence_file": f"/verif/evidence/{pid}.json",
            "replay_cmd_template": f"./check {pid} --replay {{path}}",
            "engine": engine,
            "level_claimed": {"category": "exploration", "text": text, "design_ref": ref},
            "level_note": note,
            "technique": tech,
        })
    m = {
        "version": 1,
        "setup_cmd": f"cd /verif && {ENV} go build -o bin/vcheck ./cmd/vcheck && {ENV} go build -o bin/instrument ./cmd/instrument",
        "hooks": {
            "guard": "verif",
            "enable": "no source hooks are committed to /repo: every check derives its seams from /repo's current working tree at run time (cmd/instrument: sync->shim import swap, range-over-map rewrite, os call redirect, in-package export files) and builds with `go test -overlay <scratch>/overlay.json -vet=off`; back end B additionally overlays a dozen expressions in six files of go1.26.8's runtime (select poll order, bubbled-timer tie-break, run-queue randomization, wake-up preemption, yields to the local run queue, no time-slice preemption while seeded, lock waits idle inside a bubble; overlayfiles/runtime, cmd/vcheck addRuntimeSeam) and a writable copy of the pinned go-zookeeper module; the build tag `verif` is reserved and unused",
            "baseline_off_cmd": "for m in . v2; do (cd /repo/$m && GOFLAGS=-mod=mod GOPROXY=off GOSUMDB=off go test -json -vet=off -count=1 -timeout 25m ./...); done",
            "source_commits": [],
            "add_only": True,
        },
        "engines": [
            {"name": "token-kernel", "path": "/verif/sim/kern", "serves_properties": sorted(k for k, v in CHECKS.items() if v[0] == "token-kernel"),
             "kind_free_text": "deterministic simulator, back end A: real goroutines, one token, every decision from a seeded choice stream; replay + choice-list minimisation in fresh processes (cmd/vcheck)"},
            {"name": "map-order-seam", "path": "/verif/sim/simrt", "serves_properties": ["C09", "C12", "C19", "C20"],
             "kind_free_text": "build-time rewrite of every range-over-map site (cmd/instrument) + run-time permutation from the choice stream"},
            {"name": "bubble-kernel", "path": "/verif/sim/kern/bkern.go", "serves_properties": ["C02", "C04", "C05", "C07", "C08", "C14", "C16", "C17", "C18", "C19"],
             "notes": "back end B: go1.26.8 testing/synctest bubble on one P; runtime overlay (overlayfiles/runtime) seeds select order, timer ties, run-queue order, wake-up preemption and Gosched placement; S3 runs the real d2 client against a simulated ZooKeeper on it, and the token-kernel scenarios have twin batches on it (build tag bkern)"},
            {"name": "genfs-processes", "path": "/verif/cmd/gensim", "serves_properties": ["C12", "C20"],
             "kind_free_text": "the code generator as simulated OS processes over sim/simos (fault-injecting, monitored os shim) and sim/simrt"},
        ],
        "checks": checks,
        "notes": "driver: ./check <id> [quick|thorough] [--replay file]; honours VERIF_SEED and VERIF_TIER; exit 2 = build/harness trouble (never a violation). known_findings.txt lists repaired defects (fix: commits in /repo) and open findings.",
        "not_applicable": [{"property_id": k, "reason": v} for k, v in sorted(NA.items())],
    }
    with open(os.path.join(HERE, "MANIFEST.json"), "w") as f:
        json.dump(m, f, indent=1)
        f.write("\n")

if __name__ == "__main__":
    main()
