#!/usr/bin/env python3
"""Regenerates /verif/MANIFEST.json from the table below (run after claiming / dropping a property)."""
import json, os
HERE = os.path.dirname(os.path.dirname(os.path.abspath(__file__)))
ENV = "GOFLAGS=-mod=mod GOPROXY=off GOSUMDB=off GOTOOLCHAIN=local"

NA = {
 "C01": "pure function of (schema, value): no schedule, clock, fault, peer or iteration order enters decode(encode(v)); out of the deterministic-simulation family (DESIGN.md §4 C01)",
 "C03": "differential comparison of pure encoders/decoders against a second implementation; nothing for a scheduler or a fault to act on",
 "C06": "property of a single pure decode call over deletion subsets of a document; its one exchange-level clause (lenient client) is exercised inside C02's scenario",
 "C10": "algebraic laws of pure Equals/hash functions over pairs and triples of values",
 "C11": "accept/reject boundary of pure marshal/unmarshal calls",
 "C13": "values of freshly constructed / decoded records; pure",
 "C15": "formatQueryUrl is a pure string function of (base URL, path, query)",
}

# id -> (engine, technique, level text, level note, design ref)
CHECKS = {
 "C17": ("token-kernel", "deterministic simulation: seeded serial schedules of real goroutines under the race detector (raw-pipe parking keeps TSan effective), per-request outcomes compared with the serial model",
         "Seeded search over interleavings of N tasks sharing one custom-typeref registry / one d2.Client (update loops + resolvers); zero race-detector reports and per-task results equal to the serial expectation on every explored schedule. Sampled, not exhaustive.",
         "trusts the Go race detector (bounded history), the token kernel and the sync shim (each operation = yield + the real primitive); S4 (handler/client) batches are added to this check as they land", "§4 C17, §2.2"),
 "C18": ("token-kernel", "deterministic simulation: seeded schedules at the granularity of the real sync.Map/WaitGroup steps; porcupine linearizability check of every recorded history against a compute-if-absent map",
         "Seeded search over interleavings of 2-4 clients x 1-3 operations on the real lazymap; each history is checked with porcupine against a sequential model, plus at-most-once compute, no placeholder leak, no deadlock; also under the race detector. Sampled, not exhaustive.",
         "trusts porcupine v1.3.0, the sync shim (yield + real primitive) and the assumption that sync.Map / WaitGroup operations are the atomic steps", "§4 C18"),
 "C19": ("token-kernel", "deterministic simulation: seeded event histories pushed through the real update loops while resolver tasks interleave; reference-model fold, snapshot immutability monitor, selection oracle with simulator-owned map order and random source",
         "Seeded search over announcement histories x schedules x map orders x random draws (incl. 0 and 1-2^-53): every published snapshot is the fold of a history prefix, published snapshots never change, every resolution is a legal selection on a snapshot current during the call, even sweep is weight-proportional. Sampled, not exhaustive.",
         "ZooKeeper/TreeCache replaced by a channel feed (as in the repo's own tests); in-package access through an overlay-added export file; trusts the reference fold written from the property text", "§4 C19"),
}

def main():
    checks = []
    for pid, (engine, tech, text, note, ref) in sorted(CHECKS.items()):
        checks.append({
            "property_id": pid,
            "quick_cmd": f"./check {pid} quick",
            "thorough_cmd": f"./check {pid} thorough",
            "evidence_file": f"/verif/evidence/{pid}.json",
            "replay_cmd_template": f"./check {pid} --replay {{path}}",
            "engine": engine,
            "level_claimed": {"category": "exploration", "text": text, "design_ref": ref},
            "level_note": note,
            "technique": tech,
        })
    m = {
        "version": 1,
        "setup_cmd": f"cd /verif && {ENV} go build -o bin/vcheck ./cmd/vcheck && {ENV} go build -o bin/instrument ./cmd/instrument",
        "hooks": {
            "guard": "verif",
            "enable": "no source hooks are committed to /repo: every check derives its seams from /repo's current working tree at run time (cmd/instrument: sync->shim import swap, range-over-map rewrite, os call redirect, in-package export files) and builds with `go test -overlay <scratch>/overlay.json -vet=off`; the build tag `verif` is reserved and unused",
            "baseline_off_cmd": "for m in . v2; do (cd /repo/$m && GOFLAGS=-mod=mod GOPROXY=off GOSUMDB=off go test -json -vet=off -count=1 -timeout 25m ./...); done",
            "source_commits": [],
            "add_only": True,
        },
        "engines": [
            {"name": "token-kernel", "path": "/verif/sim/kern", "serves_properties": sorted(CHECKS),
             "kind_free_text": "deterministic simulator, back end A: real goroutines, one token, every decision from a seeded choice stream; replay + choice-list minimisation in fresh processes (cmd/vcheck)"},
        ],
        "checks": checks,
        "notes": "driver: ./check <id> [quick|thorough] [--replay file]; honours VERIF_SEED and VERIF_TIER; exit 2 = build/harness trouble (never a violation). known_findings.txt lists repaired defects (fix: commits in /repo) and open findings.",
        "not_applicable": [{"property_id": k, "reason": v} for k, v in sorted(NA.items())],
    }
    with open(os.path.join(HERE, "MANIFEST.json"), "w") as f:
        json.dump(m, f, indent=1)
        f.write("\n")

if __name__ == "__main__":
    main()
