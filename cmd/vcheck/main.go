// Command vcheck is the driver behind ./check: it builds the simulator's seams from
// /repo's current working tree in a scratch directory, runs seeded batches of
// simulated executions in parallel worker processes, confirms every violation by
// replaying it in a fresh process, minimises its choice list, writes the replay file
// and the evidence file, and prints the VIOLATION / KNOWN-FINDING lines.
//
// Exit status: 0 = property held on everything explored (known findings are listed),
// 1 = violation (with a replay file), 2 = build / harness / non-reproducible trouble.
package main

import (
	"bufio"
	"bytes"
	"encoding/json"
	"fmt"
	"os"
	"os/exec"
	"path/filepath"
	"regexp"
	"sort"
	"strconv"
	"syscall"
	"strings"
	"sync"
	"time"
)

// ---- result types shared with sim/harness (kept structurally identical) -----------

type Violation struct {
	Property  string `json:"property"`
	Oracle    string `json:"oracle"`
	Signature string `json:"signature"`
	Message   string `json:"message"`
}

type Event struct {
	Seq    int64  `json:"seq"`
	Task   int    `json:"task"`
	Kind   string `json:"kind"`
	Point  string `json:"point,omitempty"`
	Detail string `json:"detail,omitempty"`
}

type Result struct {
	Scenario  string            `json:"scenario"`
	Cfg       map[string]string `json:"cfg"`
	Seed      uint64            `json:"seed"`
	From      int               `json:"from"`
	Runs      int               `json:"runs"`
	Steps     int64             `json:"steps"`
	SimTimeNs int64             `json:"sim_time_ns"`
	Draws     int64             `json:"draws"`
	Faults    map[string]int    `json:"faults"`
	Probes    map[string]int    `json:"probes"`
	Scheds    []uint64          `json:"scheds"`
	Cases     []uint64          `json:"cases"`
	Samples   []string          `json:"samples"`
	WallS     float64           `json:"wall_s"`
	Viol      *Violation        `json:"violation,omitempty"`
	ViolRun   int               `json:"violation_run"`
	Choices   []uint32          `json:"choices,omitempty"`
	Trace     []Event           `json:"trace,omitempty"`
	TraceHash string            `json:"trace_hash,omitempty"`
	AllHash   string            `json:"all_hash,omitempty"`
	Deadlocks int               `json:"deadlocks"`
	Known     map[string]int    `json:"known,omitempty"`
	OutHash   string            `json:"out_hash,omitempty"`
	RaceText  string            `json:"race_text,omitempty"`
}

type ReplayFile struct {
	Property  string   `json:"property"`
	Oracle    string   `json:"oracle"`
	Signature string   `json:"signature"`
	Scenario  string   `json:"scenario"`
	Pkg       string   `json:"pkg"`
	Cfg       string   `json:"cfg"`
	Module    string   `json:"module"`
	Seed      uint64   `json:"seed"`
	Run       int      `json:"run"`
	Choices   []uint32 `json:"choices"`
	// HistoryFrom >= 0: the violation needs the runs HistoryFrom..Run of this seed executed in one process
	// (state in the code under test survives from one run to the next); replay re-executes exactly those.
	HistoryFrom *int    `json:"history_from,omitempty"`
	Original    int     `json:"original_choice_count"`
	Trace       []Event `json:"trace"`
	Message     string  `json:"message"`
	RaceLog     string  `json:"race_report,omitempty"`
	Toolchain   string  `json:"toolchain"`
	RepoHead    string  `json:"repo_head"`
}

// ---- environment -----------------------------------------------------------------

var (
	verifDir = "/verif"
	repoDir  = "/repo"
	scratch  string
	keep     bool
	goEnv    []string
	verbose  = os.Getenv("VERIF_VERBOSE") != ""
)

func logf(format string, a ...interface{}) {
	fmt.Fprintf(os.Stderr, "[vcheck %s] %s\n", time.Now().Format("15:04:05"), fmt.Sprintf(format, a...))
}

func die(code int, format string, a ...interface{}) {
	fmt.Fprintf(os.Stderr, "vcheck: "+format+"\n", a...)
	cleanup()
	os.Exit(code)
}

func cleanup() {
	if scratch != "" && !keep {
		exec.Command("chmod", "-R", "u+w", scratch).Run()
		os.RemoveAll(scratch)
	}
}

func baseEnv() []string {
	env := []string{}
	for _, e := range os.Environ() {
		if strings.HasPrefix(e, "GOFLAGS=") || strings.HasPrefix(e, "GOPROXY=") || strings.HasPrefix(e, "GOSUMDB=") ||
			strings.HasPrefix(e, "GOTOOLCHAIN=") || strings.HasPrefix(e, "VW_") || strings.HasPrefix(e, "GORACE=") || strings.HasPrefix(e, "GOMAXPROCS=") {
			continue
		}
		env = append(env, e)
	}
	return append(env, "GOFLAGS=-mod=mod", "GOPROXY=off", "GOSUMDB=off", "GOTOOLCHAIN=local", "CGO_ENABLED=1")
}

func run(dir string, env []string, name string, args ...string) (string, error) {
	cmd := exec.Command(name, args...)
	cmd.Dir = dir
	cmd.Env = env
	var buf bytes.Buffer
	cmd.Stdout = &buf
	cmd.Stderr = &buf
	err := cmd.Run()
	return buf.String(), err
}

// ---- build -----------------------------------------------------------------------

type builtBin struct {
	gensim string
	path   string
	stats  map[string]interface{}
}

var (
	built   = map[string]*builtBin{}
	buildMu sync.Mutex
)

// claimSlot returns base/vcheck-slot-<i> for the lowest i that is free or whose owner process is gone.
func claimSlot(base string) (string, error) {
	for i := 0; i < 64; i++ {
		dir := filepath.Join(base, fmt.Sprintf("vcheck-slot-%d", i))
		for attempt := 0; attempt < 2; attempt++ {
			if err := os.Mkdir(dir, 0755); err == nil {
				if err := os.WriteFile(filepath.Join(dir, ".owner"), []byte(strconv.Itoa(os.Getpid())), 0644); err != nil {
					return "", err
				}
				return dir, nil
			}
			// taken: by a live process (next slot), or left behind by one that was killed (reclaim, once)
			b, err := os.ReadFile(filepath.Join(dir, ".owner"))
			if err != nil {
				// no owner file: being set up this very moment, or debris; leave it alone unless it is old
				if st, e := os.Stat(dir); e == nil && time.Since(st.ModTime()) > 10*time.Minute {
					exec.Command("chmod", "-R", "u+w", dir).Run()
					os.RemoveAll(dir)
					continue
				}
				break
			}
			pid, _ := strconv.Atoi(strings.TrimSpace(string(b)))
			if pid > 0 && syscall.Kill(pid, 0) == nil {
				break // alive
			}
			exec.Command("chmod", "-R", "u+w", dir).Run()
			os.RemoveAll(dir)
		}
	}
	return "", fmt.Errorf("no free scratch slot under %s", base)
}

// prepareScratch assembles the scratch module: go.mod with replaces, scenario
// packages copied from /verif/scen.
func prepareScratch(mod string) {
	var err error
	base := os.Getenv("VERIF_SCRATCH")
	if base == "" {
		base = os.TempDir()
	}
	// The scratch module lives in a numbered slot with a stable path (vcheck-slot-0 for a check that runs alone), not
	// in a randomly named directory: the Go build cache keys compiled packages by their directory, and a fresh name
	// per run added some 250 MB to the cache on every single check (93 GB after a day of sweeps). A slot is taken
	// with mkdir (atomic); one whose owner is dead is reclaimed.
	scratch, err = claimSlot(base)
	if err != nil {
		scratch, err = os.MkdirTemp(base, "vcheck-")
		if err != nil {
			die(2, "mktemp: %v", err)
		}
	}
	repl := repoDir + "/v2"
	modpath := "github.com/PapaCharlie/go-restli/v2"
	gomod := fmt.Sprintf(`module vscratch

go 1.22.0

require (
	verif v0.0.0
	%s v2.0.0
	github.com/anishathalye/porcupine v1.3.0
)

replace verif => %s

replace %s => %s
`, modpath, verifDir, modpath, repl)
	must(os.WriteFile(filepath.Join(scratch, "go.mod"), []byte(gomod), 0644))
	sum, _ := os.ReadFile(filepath.Join(verifDir, "go.sum"))
	must(os.WriteFile(filepath.Join(scratch, "go.sum"), sum, 0644))
	out, err := run(verifDir, goEnv, "cp", "-r", filepath.Join(verifDir, "scen"), filepath.Join(scratch, "scen"))
	if err != nil {
		die(2, "copy scen: %v %s", err, out)
	}
	// the root-module variant: same scenario sources, import path switched
	rdir := filepath.Join(scratch, "r")
	must(os.MkdirAll(filepath.Join(rdir, "scen"), 0755))
	rootmod := "github.com/PapaCharlie/go-restli"
	rgomod := fmt.Sprintf("module vscratch\n\ngo 1.22.0\n\nrequire (\n\tverif v0.0.0\n\t%s v0.0.0\n\tgithub.com/anishathalye/porcupine v1.3.0\n)\n\nreplace verif => %s\n\nreplace %s => %s\n", rootmod, verifDir, rootmod, repoDir)
	must(os.WriteFile(filepath.Join(rdir, "go.mod"), []byte(rgomod), 0644))
	rsum, _ := os.ReadFile(filepath.Join(repoDir, "go.sum"))
	must(os.WriteFile(filepath.Join(rdir, "go.sum"), append(append([]byte{}, sum...), rsum...), 0644))
	for _, f := range []string{"s1/s1_test.go", "s2/s2_test.go"} {
		data, err := os.ReadFile(filepath.Join(verifDir, "scen", f))
		must(err)
		must(os.MkdirAll(filepath.Dir(filepath.Join(rdir, "scen", f)), 0755))
		must(os.WriteFile(filepath.Join(rdir, "scen", f), bytes.ReplaceAll(data, []byte("go-restli/v2/"), []byte("go-restli/")), 0644))
	}
	// S6 (generator and cleaner as simulated processes) is module-agnostic source: copied as it is
	if out, err := run(verifDir, goEnv, "cp", "-r", filepath.Join(verifDir, "scen", "s6"), filepath.Join(rdir, "scen", "s6")); err != nil {
		die(2, "copy scen/s6: %v %s", err, out)
	}
	// S4 (client -> simulated HTTP -> server) against the root module: the same sources, transformed
	s4files, _ := filepath.Glob(filepath.Join(verifDir, "scen", "s4", "*.go"))
	must(os.MkdirAll(filepath.Join(rdir, "scen", "s4"), 0755))
	for _, f := range s4files {
		data, err := os.ReadFile(f)
		must(err)
		must(os.WriteFile(filepath.Join(rdir, "scen", "s4", filepath.Base(f)), rootTransform(data), 0644))
	}
	// back end B lives in its own module: testing/synctest needs the go1.26.8 toolchain and the
	// timer semantics that come with a go >= 1.23 main module
	bdir := filepath.Join(scratch, "b")
	must(os.MkdirAll(filepath.Join(bdir, "scen"), 0755))
	// a writable copy of the ZooKeeper client at the version /repo pins, so that its map-order sites can be overlaid
	zkmod := "github.com/go-zookeeper/zk"
	zkdir, err := run(repl, goEnv, "go", "list", "-m", "-f", "{{.Dir}}", zkmod)
	if err != nil || strings.TrimSpace(zkdir) == "" {
		die(2, "locating %s: %v %s", zkmod, err, zkdir)
	}
	if out, err := run(verifDir, goEnv, "cp", "-r", strings.TrimSpace(zkdir), filepath.Join(scratch, "zk")); err != nil {
		die(2, "copy zk: %v %s", err, out)
	}
	if out, err := run(verifDir, goEnv, "chmod", "-R", "u+w", filepath.Join(scratch, "zk")); err != nil {
		die(2, "chmod zk: %v %s", err, out)
	}
	// generics in the rewritten range sites need language version 1.18 (still per-loop variables, as before)
	must(os.WriteFile(filepath.Join(scratch, "zk", "go.mod"), []byte("module "+zkmod+"\n\ngo 1.18\n"), 0644))
	bgomod := strings.Replace(gomod, "go 1.22.0", "go 1.25.0", 1) + fmt.Sprintf("\nreplace %s => %s\n", zkmod, filepath.Join(scratch, "zk"))
	must(os.WriteFile(filepath.Join(bdir, "go.mod"), []byte(bgomod), 0644))
	must(os.WriteFile(filepath.Join(bdir, "go.sum"), sum, 0644))
	for _, sc := range []string{"s3", "s1", "s2", "s4"} {
		if out, err := run(verifDir, goEnv, "cp", "-r", filepath.Join(verifDir, "scen", sc), filepath.Join(bdir, "scen", sc)); err != nil {
			die(2, "copy scen/%s: %v %s", sc, err, out)
		}
	}
	// ... and the same once more for the ROOT module (it pins an older ZooKeeper client, samuel/go-zookeeper, with the
	// same connection API): module "rb", a writable copy of that client, scen/s3 with the import paths rewritten
	rbdir := filepath.Join(scratch, "rb")
	must(os.MkdirAll(filepath.Join(rbdir, "scen", "s3"), 0755))
	zkmodR := "github.com/samuel/go-zookeeper"
	zkdirR, err := run(repoDir, goEnv, "go", "list", "-m", "-f", "{{.Dir}}", zkmodR)
	if err != nil || strings.TrimSpace(zkdirR) == "" {
		die(2, "locating %s: %v %s", zkmodR, err, zkdirR)
	}
	if out, err := run(verifDir, goEnv, "cp", "-r", strings.TrimSpace(zkdirR), filepath.Join(scratch, "zkr")); err != nil {
		die(2, "copy zk (root): %v %s", err, out)
	}
	if out, err := run(verifDir, goEnv, "chmod", "-R", "u+w", filepath.Join(scratch, "zkr")); err != nil {
		die(2, "chmod zk (root): %v %s", err, out)
	}
	must(os.WriteFile(filepath.Join(scratch, "zkr", "go.mod"), []byte("module "+zkmodR+"\n\ngo 1.18\n"), 0644))
	rbgomod := strings.Replace(rgomod, "go 1.22.0", "go 1.25.0", 1) + fmt.Sprintf("\nreplace %s => %s\n", zkmodR, filepath.Join(scratch, "zkr"))
	must(os.WriteFile(filepath.Join(rbdir, "go.mod"), []byte(rbgomod), 0644))
	must(os.WriteFile(filepath.Join(rbdir, "go.sum"), append(append([]byte{}, sum...), rsum...), 0644))
	s3files, _ := filepath.Glob(filepath.Join(verifDir, "scen", "s3", "*.go"))
	for _, f := range s3files {
		data, err := os.ReadFile(f)
		must(err)
		data = bytes.ReplaceAll(rootTransform(data), []byte(`"github.com/go-zookeeper/zk"`), []byte(`"github.com/samuel/go-zookeeper/zk"`))
		must(os.WriteFile(filepath.Join(rbdir, "scen", "s3", filepath.Base(f)), data, 0644))
	}
}

// addRuntimeSeam points the two runtime sites that decide user-visible order from unpinnable
// per-thread randomness (select's poll order, the tie-break of simultaneous bubbled timers) at a
// stream the scenario seeds (overlayfiles/runtime). Only the go1.26.8 bubble binaries get it.
func addRuntimeSeam(overlay, ovDir string) {
	out, err := run(verifDir, goEnv, "go1.26.8", "env", "GOROOT")
	if err != nil {
		die(2, "go1.26.8 env GOROOT: %v %s", err, out)
	}
	rt := filepath.Join(strings.TrimSpace(out), "src", "runtime")
	var ov struct{ Replace map[string]string }
	data, err := os.ReadFile(overlay)
	must(err)
	must(json.Unmarshal(data, &ov))
	patchN := func(file string, olds, news []string) {
		file = strings.TrimSuffix(file, ".2") // a second round of patches on a file already rewritten
		srcPath := filepath.Join(rt, file)
		if prev, ok := ov.Replace[srcPath]; ok {
			srcPath = prev
		}
		src, err := os.ReadFile(srcPath)
		must(err)
		for i, old := range olds {
			if bytes.Count(src, []byte(old)) != 1 {
				die(2, "runtime seam: %s does not contain exactly one %q (toolchain differs from the one this seam was written for)", file, old)
			}
			src = bytes.Replace(src, []byte(old), []byte(news[i]), 1)
		}
		dst := filepath.Join(ovDir, "runtime_"+file)
		must(os.WriteFile(dst, src, 0644))
		ov.Replace[filepath.Join(rt, file)] = dst
	}
	patch := func(file, old, new string) { patchN(file, []string{old}, []string{new}) }
	patch("select.go", "j := cheaprandn(uint32(norder + 1))", "j := verifRandn(uint32(norder + 1))")
	patch("time.go", "t.rand = cheaprand()", "t.rand = verifRand()")
	// race builds randomize the run queue (randomizeScheduler = raceenabled): same stream
	patchN("proc.go", []string{"\trunqput(mp.p.ptr(), gp, next)\n\twakep()\n\treleasem(mp)\n", "\t\trunqput(pp, newg, true)\n\n\t\tif mainStarted {", "next && randn(2) == 0", "\t\t\tj := cheaprandn(i + 1)\n\t\t\tbatch[i], batch[j]", "\t\t\tj := cheaprandn(i + 1)\n\t\t\tpp.runq[off(i)], pp.runq[off(j)]"},
		[]string{"\trunqput(mp.p.ptr(), gp, next)\n\tverifMaybePreempt(mp)\n\twakep()\n\treleasem(mp)\n", "\t\trunqput(pp, newg, true)\n\t\tverifMaybePreempt(getg().m)\n\n\t\tif mainStarted {", "next && verifRandn(2) == 0", "\t\t\tj := verifRandn(i + 1)\n\t\t\tbatch[i], batch[j]", "\t\t\tj := verifRandn(i + 1)\n\t\t\tpp.runq[off(i)], pp.runq[off(j)]"})
	// a goroutine preempted by the seam goes to the tail of the local run queue (as runtime.goyield does), not to the
	// global one: when the global queue is polled depends on schedtick, which background goroutines advance in real time
	// likewise runtime.Gosched from a bubbled goroutine (the bubble kernel's yield): tail of the local run queue
	patch("proc.go.2", "\t} else {\n\t\tlock(&sched.lock)\n\t\tglobrunqput(gp)\n\t\tunlock(&sched.lock)\n\t}\n\n\tif mainStarted {\n\t\twakep()\n\t}\n\n\tschedule()\n}",
		"\t} else if gp.bubble != nil && verifLocalYield {\n\t\trunqput(pp, gp, false)\n\t} else {\n\t\tlock(&sched.lock)\n\t\tglobrunqput(gp)\n\t\tunlock(&sched.lock)\n\t}\n\n\tif mainStarted {\n\t\twakep()\n\t}\n\n\tschedule()\n}")
	// sysmon asks a goroutine that has been running for 10 ms of real time to yield; on a loaded machine that is a
	// timing-dependent scheduling point. Not while a seeded stream is installed (the collector is off, nothing
	// inside a bubble runs that long of its own accord).
	patch("proc.go.2", "\t\t\tpreemptone(pp)\n\t\t\t// If pp is in a syscall, preemptone doesn't work.", "\t\t\tif !verifLocalYield {\n\t\t\t\tpreemptone(pp)\n\t\t\t}\n\t\t\t// If pp is in a syscall, preemptone doesn't work.")
	// synctest does not count a goroutine blocked on a sync.Mutex (or inside a sync.Once, or on a WaitGroup made
	// outside the bubble) as idle, because somebody outside the bubble might release it. Inside our bubbles nobody
	// else can: if every goroutine waits like that while the holder sleeps on the fake clock, the clock never moves
	// and the run hangs (seen with a lazy map rebuilt on sync.Once). They count as idle here.
	patch("runtime2.go", "\twaitReasonSyncCondWait:          true,\n", "\twaitReasonSyncCondWait:          true,\n\twaitReasonSyncMutexLock:         true,\n\twaitReasonSyncRWMutexRLock:      true,\n\twaitReasonSyncRWMutexLock:       true,\n\twaitReasonSyncWaitGroupWait:     true,\n")
	patch("stack.go", "\t\tgopreempt_m(gp) // never return\n", "\t\tif gp.bubble != nil && verifPreemptOneIn != 0 {\n\t\t\tgoyield_m(gp) // never return\n\t\t}\n\t\tgopreempt_m(gp) // never return\n")
	add, err := os.ReadFile(filepath.Join(verifDir, "overlayfiles", "runtime", "zz_verif_rand.go.txt"))
	must(err)
	dst := filepath.Join(ovDir, "runtime_zz_verif_rand.go")
	must(os.WriteFile(dst, add, 0644))
	ov.Replace[filepath.Join(rt, "zz_verif_rand.go")] = dst
	data, _ = json.MarshalIndent(ov, "", " ")
	must(os.WriteFile(overlay, data, 0644))
}

func must(err error) {
	if err != nil {
		die(2, "%v", err)
	}
}

// rootTransform turns a scenario source written against the v2 module into one against the root module: import
// paths, the place of the Rest.li data records (package restlidata instead of .../generated/com/linkedin/restli/common)
// and the root module's spelling of CollectionMetadata.
func rootTransform(data []byte) []byte {
	data = bytes.ReplaceAll(data, []byte(`"github.com/PapaCharlie/go-restli/v2/restlidata/generated/com/linkedin/restli/common"`), []byte(`common "github.com/PapaCharlie/go-restli/restlidata"`))
	data = bytes.ReplaceAll(data, []byte("common common \""), []byte("common \""))
	data = bytes.ReplaceAll(data, []byte("go-restli/v2/"), []byte("go-restli/"))
	data = bytes.ReplaceAll(data, []byte("common.CollectionMetadata"), []byte("common.CollectionMedata"))
	data = bytes.ReplaceAll(data, []byte("common.NewCollectionMetadataWithDefaultValues"), []byte("common.NewCollectionMedataWithDefaultValues"))
	return data
}

var familyDone, familyRootDone bool

// allowSkipBuild: buildScenario may return nil (instead of ending the check) when only the overlay export file of
// the scenario does not compile any more; skippedBuilds counts such batches of the running check.
var allowSkipBuild bool
var skippedBuilds int

// ensureFamilyRoot: the same family generated by the ROOT module's generator (built from /repo's working tree) into
// the root scratch module.
func ensureFamilyRoot() {
	if familyRootDone {
		return
	}
	t0 := time.Now()
	rdir := filepath.Join(scratch, "r")
	src, err := os.ReadFile(filepath.Join(verifDir, "overlayfiles", "rootdriver", "main.go.txt"))
	must(err)
	must(os.MkdirAll(filepath.Join(rdir, "rootdriver"), 0755))
	must(os.WriteFile(filepath.Join(rdir, "rootdriver", "main.go"), src, 0644))
	drv := filepath.Join(rdir, "rootdriver.bin")
	out, err := run(rdir, goEnv, "go", "build", "-o", drv, "./rootdriver")
	if err != nil {
		die(2, "building the root module's generator from /repo failed (exit 2: build trouble): %v\n%s", err, out)
	}
	out, err = run(rdir, goEnv, drv, filepath.Join(verifDir, "family", "root.spec.json"), filepath.Join(rdir, "fam"), "vscratch/fam")
	if err != nil {
		die(2, "generating the binding family with the root module's generator failed (exit 2): %v\n%s", err, lastLines(out, 30))
	}
	glue, err := os.ReadFile(filepath.Join(verifDir, "family", "glue.go.txt"))
	must(err)
	must(os.WriteFile(filepath.Join(rdir, "scen", "s4", "glue.go"), rootTransform(glue), 0644))
	familyRootDone = true
	logf("generated binding family (root module) in %.1fs", time.Since(t0).Seconds())
}

// ensureFamily generates the binding family into the scratch module with the generator
// built from /repo's current working tree, and installs the glue file.
func ensureFamily() {
	if familyDone {
		return
	}
	t0 := time.Now()
	gd := filepath.Join(scratch, "gendriver")
	out, err := run(scratch, goEnv, "go", "build", "-o", gd, "verif/cmd/gendriver")
	if err != nil {
		die(2, "building the generator from /repo failed (exit 2: build trouble): %v\n%s", err, out)
	}
	// hand-written custom typeref implementations live beside the generated code and must be there first
	if out, err := run(scratch, goEnv, "cp", "-r", filepath.Join(verifDir, "family", "custom")+"/.", filepath.Join(scratch, "fam")); err != nil {
		die(2, "copying custom typeref sources: %v %s", err, out)
	}
	out, err = run(scratch, goEnv, gd, filepath.Join(verifDir, "family", "family.manifest.json"), filepath.Join(scratch, "fam"))
	if err != nil {
		die(2, "generating the binding family failed (exit 2; C12's check reports generator failures as violations): %v\n%s", err, lastLines(out, 30))
	}
	glue, err := os.ReadFile(filepath.Join(verifDir, "family", "glue.go.txt"))
	must(err)
	must(os.WriteFile(filepath.Join(scratch, "scen", "s4", "glue.go"), glue, 0644))
	familyDone = true
	logf("generated binding family in %.1fs", time.Since(t0).Seconds())
}

// ensureTools builds bin/instrument if missing or stale.
func ensureTools() {
	bin := filepath.Join(verifDir, "bin", "instrument")
	if st, err := os.Stat(bin); err == nil {
		src, _ := os.Stat(filepath.Join(verifDir, "cmd", "instrument", "main.go"))
		if src == nil || !src.ModTime().After(st.ModTime()) {
			return
		}
	}
	out, err := run(verifDir, goEnv, "go", "build", "-o", bin, "./cmd/instrument")
	if err != nil {
		die(2, "building instrumenter: %v\n%s", err, out)
	}
}

// buildScenario instruments the current tree for the given seam set and compiles the
// scenario's test binary with the race detector.
func buildScenario(b *Batch) *builtBin {
	key := b.Pkg + "|" + b.Seams.key() + "|" + b.Module + "|" + b.Tags + fmt.Sprint(b.Bubble)
	buildMu.Lock()
	defer buildMu.Unlock()
	if bb, ok := built[key]; ok {
		return bb
	}
	idx := len(built)
	ovDir := filepath.Join(scratch, fmt.Sprintf("ov%d", idx))
	overlay := filepath.Join(scratch, fmt.Sprintf("overlay%d.json", idx))
	statsFile := filepath.Join(scratch, fmt.Sprintf("instr%d.json", idx))
	modDir := repoDir + "/v2"
	if b.Module == "root" {
		modDir = repoDir
	}
	args := []string{"-dir", modDir, "-out", ovDir, "-overlay", overlay, "-stats", statsFile}
	if b.Seams.Sync != "" {
		args = append(args, "-sync", b.Seams.Sync)
	}
	if b.Seams.MapOrder != "" {
		args = append(args, "-maporder", b.Seams.MapOrder)
	}
	if b.Seams.Os != "" {
		args = append(args, "-os", b.Seams.Os)
	}
	if b.Seams.Add != "" {
		var adds []string
		for _, a := range strings.Split(b.Seams.Add, ",") {
			kv := strings.SplitN(a, "=", 2)
			adds = append(adds, filepath.Join(verifDir, kv[0])+"="+filepath.Join(modDir, kv[1]))
		}
		args = append(args, "-add", strings.Join(adds, ","))
	}
	t0 := time.Now()
	out, err := run(scratch, goEnv, filepath.Join(verifDir, "bin", "instrument"), args...)
	if err != nil {
		die(2, "instrumenting /repo failed (exit 2: build trouble, not a violation): %v\n%s", err, out)
	}
	logf("%s", strings.TrimSpace(out))
	if b.Seams.ZkMap {
		zkCopy := "zk"
		if b.Module == "root" {
			zkCopy = "zkr"
		}
		out, err = run(scratch, goEnv, filepath.Join(verifDir, "bin", "instrument"), "-dir", filepath.Join(scratch, zkCopy), "-out", ovDir+"zk",
			"-overlay", overlay, "-merge", overlay, "-maporder", "all", "-stats", statsFile+".zk")
		if err != nil {
			die(2, "instrumenting the ZooKeeper client copy failed (exit 2: build trouble, not a violation): %v\n%s", err, out)
		}
		logf("zk client: %s", strings.TrimSpace(out))
	}
	if b.Bubble {
		addRuntimeSeam(overlay, ovDir)
	}
	if b.Prepare != nil {
		b.Prepare(overlay)
	}
	if b.Family {
		if b.Module == "root" {
			ensureFamilyRoot()
		} else {
			ensureFamily()
			if b.Bubble {
				// the bubble module is a module of its own: it gets a copy of the generated family and of the glue
				bdir := filepath.Join(scratch, "b")
				if _, err := os.Stat(filepath.Join(bdir, "fam")); err != nil {
					if out, err := run(scratch, goEnv, "cp", "-r", filepath.Join(scratch, "fam"), filepath.Join(bdir, "fam")); err != nil {
						die(2, "copy family: %v %s", err, out)
					}
					if out, err := run(scratch, goEnv, "cp", filepath.Join(scratch, "scen", "s4", "glue.go"), filepath.Join(bdir, "scen", "s4", "glue.go")); err != nil {
						die(2, "copy glue: %v %s", err, out)
					}
				}
			}
		}
	}
	gensimPath := ""
	if b.GenSim {
		gensimPath = filepath.Join(scratch, fmt.Sprintf("gensim%d", idx))
		if b.Module == "root" {
			// the root module's generator: its driver lives in the root scratch module (verif only requires v2)
			rdir := filepath.Join(scratch, "r")
			src, rerr := os.ReadFile(filepath.Join(verifDir, "overlayfiles", "rootgensim", "main.go.txt"))
			must(rerr)
			must(os.MkdirAll(filepath.Join(rdir, "rootgensim"), 0755))
			must(os.WriteFile(filepath.Join(rdir, "rootgensim", "main.go"), src, 0644))
			out, err = run(rdir, goEnv, "go", "build", "-overlay", overlay, "-o", gensimPath, "./rootgensim")
		} else {
			out, err = run(scratch, goEnv, "go", "build", "-overlay", overlay, "-o", gensimPath, "verif/cmd/gensim")
		}
		if err != nil {
			die(2, "building the simulated generator failed (exit 2: build trouble, not a violation): %v\n%s", err, out)
		}
	}
	bin := filepath.Join(scratch, fmt.Sprintf("%s-%d.test", filepath.Base(b.Pkg), idx))
	targs := []string{"test", "-c", "-overlay", overlay, "-vet=off", "-o", bin}
	if !b.NoRace {
		targs = append(targs, "-race")
	}
	tags := "vscratch"
	if b.Tags != "" {
		tags += "," + b.Tags
	}
	targs = append(targs, "-tags", tags, "./"+b.Pkg)
	gobin, gdir := "go", scratch
	if b.Bubble {
		gobin, gdir = "go1.26.8", filepath.Join(scratch, "b")
	}
	if b.Module == "root" {
		gdir = filepath.Join(scratch, "r")
		if b.Bubble {
			gdir = filepath.Join(scratch, "rb")
		}
	}
	out, err = run(gdir, goEnv, gobin, targs...)
	if err != nil {
		if strings.Contains(out, "/overlayfiles/") && strings.Contains(out, "undefined:") && allowSkipBuild {
			// The in-package export file that gives this scenario access to an unexported name no longer fits the
			// code (the name is gone: a refactoring of internals, not a broken tree). The scenario cannot be built;
			// the property's other batches still can.
			logf("note: scenario %s cannot be built against this tree: its in-package export file names an internal that is gone:\n%s", b.Pkg, firstLines(out, 6))
			built[key] = nil
			return nil
		}
		die(2, "building scenario %s failed (exit 2: build trouble, not a violation): %v\n%s", b.Pkg, err, out)
	}
	logf("built %s in %.1fs", b.Pkg, time.Since(t0).Seconds())
	bb := &builtBin{path: bin, stats: map[string]interface{}{}, gensim: gensimPath}
	if data, err := os.ReadFile(statsFile); err == nil {
		json.Unmarshal(data, &bb.stats)
	}
	built[key] = bb
	return bb
}

// ---- running workers -------------------------------------------------------------

func workerEnv(b *Batch, prop string, extra ...string) []string {
	env := append([]string{}, goEnv...)
	if b.GenSim {
		if bb := built[b.Pkg+"|"+b.Seams.key()+"|"+b.Module+"|"+b.Tags+fmt.Sprint(b.Bubble)]; bb != nil {
			env = append(env, "VW_GENSIM="+bb.gensim)
		}
		tmp := filepath.Join(scratch, "tmp")
		os.MkdirAll(tmp, 0755)
		env = append(env, "VW_FAMILY_DIR="+filepath.Join(verifDir, "family"), "VW_REPO_V2="+filepath.Join(repoDir, "v2"), "VW_TMP="+tmp)
		if b.Module == "root" {
			env = append(env, "VW_MODDIR="+filepath.Join(scratch, "r"))
		} else {
			env = append(env, "VW_MODDIR="+scratch)
		}
	}
	own := prop
	if spec, ok := props[prop]; ok {
		for _, a := range spec.Also {
			own += "," + a
		}
	}
	if b.RaceProp != "" {
		own += "," + b.RaceProp
	}
	env = append(env, "VW_SCEN="+b.Scen, "VW_CFG="+b.Cfg, "VW_PROP="+prop, "VW_OWN="+own+",C17", "VW_MODULE="+b.Module)
	if b.Bubble {
		// one P, no asynchronous preemption, no garbage collector: nothing but the program's own blocking
		// decides which goroutine runs next inside a bubble
		env = append(env, "GOMAXPROCS=1", "GODEBUG=asyncpreemptoff=1,randautoseed=0", "GOGC=off")
	} else {
		env = append(env, "GOMAXPROCS=2")
	}
	return append(env, extra...)
}

type workerOut struct {
	res     *Result
	raceLog string
	exit    int
	output  string
	hang    string
}

func runWorker(bin string, env []string, outFile string, timeout time.Duration) *workerOut {
	raceBase := outFile + ".race"
	env = append(env, "VW_OUT="+outFile, "GORACE=log_path="+raceBase+" history_size=3")
	cmd := exec.Command(bin, "-test.timeout=0", "-test.count=1")
	cmd.Env = env
	cmd.Dir = scratch
	var buf bytes.Buffer
	cmd.Stdout = &buf
	cmd.Stderr = &buf
	wo := &workerOut{}
	if err := cmd.Start(); err != nil {
		wo.exit = -1
		wo.output = err.Error()
		return wo
	}
	done := make(chan error, 1)
	go func() { done <- cmd.Wait() }()
	select {
	case err := <-done:
		if err != nil {
			if ee, ok := err.(*exec.ExitError); ok {
				wo.exit = ee.ExitCode()
			} else {
				wo.exit = -1
			}
		}
	case <-time.After(timeout):
		cmd.Process.Kill()
		<-done
		wo.exit = -2
	}
	wo.output = buf.String()
	if data, err := os.ReadFile(outFile); err == nil {
		var r Result
		if json.Unmarshal(data, &r) == nil {
			wo.res = &r
		}
	}
	if m, _ := filepath.Glob(raceBase + ".*"); len(m) > 0 {
		for _, f := range m {
			data, _ := os.ReadFile(f)
			wo.raceLog += string(data)
		}
	}
	if wo.res != nil && wo.res.RaceText != "" {
		wo.raceLog = wo.res.RaceText // the violating run's reports only (earlier ones were races inside dependencies)
	}
	if data, err := os.ReadFile(outFile + ".hang"); err == nil {
		wo.hang = string(data)
	}
	return wo
}

var frameRe = regexp.MustCompile(`^\s+(\S+)\(\)\s*$`)

// raceSignature names the two conflicting accesses of the first report by the
// function at the top of each access stack that is not runtime / reflect / sync
// plumbing or a seam shim. A race between two harness accesses, or one where the
// harness side WRITES, is the harness's own (reported as harness trouble, never as a
// violation). A harness READ of memory that repository code writes later is a genuine
// finding: the harness only ever reads what was published to it (a snapshot, a
// response, an argument), so a conflicting later write is a mutation after publication.
func raceSignature(log string) string {
	type acc struct {
		fn      string
		write   bool
		harness bool
	}
	var accs []acc
	sc := bufio.NewScanner(strings.NewReader(log))
	sc.Buffer(make([]byte, 1<<20), 1<<20)
	inAccess, got, isWrite := false, false, false
	clean := func(fn string) string {
		fn = strings.TrimPrefix(fn, "github.com/PapaCharlie/go-restli/")
		fn = regexp.MustCompile(`\.func\d+(\.\d+)*$`).ReplaceAllString(fn, "")
		fn = regexp.MustCompile(`\[[^\]]*\]`).ReplaceAllString(fn, "")
		return fn
	}
	for sc.Scan() {
		line := sc.Text()
		switch {
		case strings.HasPrefix(line, "Write at") || strings.HasPrefix(line, "Read at") ||
			strings.HasPrefix(line, "Previous write at") || strings.HasPrefix(line, "Previous read at") ||
			strings.HasPrefix(line, "Atomic write at") || strings.HasPrefix(line, "Previous atomic"):
			inAccess, got = true, false
			isWrite = strings.Contains(strings.ToLower(line), "write")
		case strings.HasPrefix(line, "Goroutine "):
			inAccess = false
			if len(accs) >= 2 {
				goto out
			}
		case inAccess && !got:
			if m := frameRe.FindStringSubmatch(line); m != nil {
				fn := m[1]
				switch {
				case strings.HasPrefix(fn, "runtime.") || strings.HasPrefix(fn, "reflect.") || strings.HasPrefix(fn, "sync.") || strings.HasPrefix(fn, "sync/atomic.") || strings.HasPrefix(fn, "internal/"):
					continue
				case strings.HasPrefix(fn, "verif/sim/simrt.") || strings.HasPrefix(fn, "verif/sim/simsync."):
					continue // seam shims: the access belongs to their caller
				default:
					h := strings.HasPrefix(fn, "verif/") || strings.HasPrefix(fn, "vscratch/scen/")
					accs = append(accs, acc{clean(fn), isWrite, h})
					got = true
				}
			}
		}
	}
out:
	if len(accs) == 0 {
		return "race:unattributed"
	}
	if len(accs) > 2 {
		accs = accs[:2]
	}
	var names []string
	harness := true
	for _, a := range accs {
		names = append(names, a.fn)
		if !a.harness {
			harness = false
		}
	}
	for _, a := range accs {
		if a.harness && a.write {
			harness = true
		}
	}
	sort.Strings(names)
	if harness {
		return "harness-race:" + strings.Join(names, "|")
	}
	return "race:" + strings.Join(names, "|")
}

// classify turns a worker outcome into a violation (or nil), filling in race details.
func classify(wo *workerOut, prop string, hangIsViolation bool, b ...*Batch) (*Violation, []uint32, int) {
	if wo.exit == 3 || wo.hang != "" {
		v := &Violation{Property: prop, Oracle: "hang", Signature: "hang", Message: "a task did not reach its next yield within the watchdog time\n" + firstLines(wo.hang, 60)}
		if !hangIsViolation {
			v.Property = "HARNESS"
		}
		return v, nil, -1
	}
	if wo.res == nil {
		return &Violation{Property: "HARNESS", Oracle: "worker-crash", Signature: "worker-crash", Message: fmt.Sprintf("worker exit %d without result\n%s", wo.exit, lastLines(wo.output, 80))}, nil, -1
	}
	v := wo.res.Viol
	if v == nil {
		return nil, nil, -1
	}
	if v.Oracle == "race" {
		v.Signature = raceSignature(wo.raceLog)
		v.Message = "data race reported by the race detector under a serial, simulator-chosen schedule\n" + firstLines(wo.raceLog, 70)
		if strings.HasPrefix(v.Signature, "harness-race:") {
			v.Property = "HARNESS"
			return v, wo.res.Choices, wo.res.ViolRun
		}
		if len(b) > 0 && b[0].RaceProp != "" && (b[0].RaceOwn == "" || strings.Contains(v.Signature, b[0].RaceOwn)) {
			v.Property = b[0].RaceProp
		}
	}
	return v, wo.res.Choices, wo.res.ViolRun
}

func firstLines(s string, n int) string {
	l := strings.Split(s, "\n")
	if len(l) > n {
		l = l[:n]
	}
	return strings.Join(l, "\n")
}
func lastLines(s string, n int) string {
	l := strings.Split(s, "\n")
	if len(l) > n {
		l = l[len(l)-n:]
	}
	return strings.Join(l, "\n")
}

// replayOnce runs one choice list in a fresh process.
func replayOnce(bb *builtBin, b *Batch, prop string, choices []uint32, tag string) (*Violation, *workerOut) {
	rf := filepath.Join(scratch, "cand-"+tag+".json")
	data, _ := json.Marshal(map[string]interface{}{"choices": choices})
	os.WriteFile(rf, data, 0644)
	out := filepath.Join(scratch, "candout-"+tag+".json")
	os.Remove(out)
	for _, f := range globs(out + ".*") {
		os.Remove(f)
	}
	wo := runWorker(bb.path, workerEnv(b, prop, "VW_MODE=replay", "VW_REPLAY="+rf, "VW_KNOWN="+knownEnv(prop)), out, 5*time.Minute)
	v, _, _ := classify(wo, prop, b.HangIsViolation, b)
	return v, wo
}

// historyOnce re-executes the runs from..run of a seed in one fresh worker process (search mode over that range).
func historyOnce(bb *builtBin, b *Batch, prop string, seed uint64, from, run int, tag string) (*Violation, *workerOut, int) {
	out := filepath.Join(scratch, "histout-"+tag+".json")
	os.Remove(out)
	for _, f := range globs(out + ".*") {
		os.Remove(f)
	}
	env := workerEnv(b, prop, "VW_MODE=search", fmt.Sprintf("VW_SEED=%d", seed), fmt.Sprintf("VERIF_SEED=%d", seed),
		fmt.Sprintf("VW_FROM=%d", from), fmt.Sprintf("VW_TO=%d", run+1), "VW_SECONDS=0", "VW_KNOWN="+knownEnv(prop))
	wo := runWorker(bb.path, env, out, 10*time.Minute)
	v, _, vr := classify(wo, prop, b.HangIsViolation, b)
	return v, wo, vr
}

func setHistory(path string, from int) {
	data, err := os.ReadFile(path)
	if err != nil {
		return
	}
	var rf ReplayFile
	if json.Unmarshal(data, &rf) != nil {
		return
	}
	rf.HistoryFrom = &from
	data, _ = json.MarshalIndent(rf, "", " ")
	os.WriteFile(path, data, 0644)
}

func globs(p string) []string { m, _ := filepath.Glob(p); return m }

// looseClass: the candidate's replay showed a violation of the same property with another oracle or detail (the code
// under test has a source of order the simulator does not own, e.g. Go's map iteration in a package the map-order seam
// is not applied to, and a defect that makes the outcome depend on it). Every replay is a real execution of the real
// code, so what is reported is what the replays show; for the rest of this candidate "the same violation" means "a
// violation of the same property".
var looseClass bool

func sameClass(a, b *Violation) bool {
	if looseClass {
		return a != nil && b != nil && a.Property == b.Property && isKnown(a) == nil && isKnown(b) == nil
	}
	return a != nil && b != nil && a.Property == b.Property && a.Oracle == b.Oracle && a.Signature == b.Signature
}

// shrink minimises the choice list (ddmin chunk deletion, then lowering values toward
// 0) while the same violation class persists; every candidate is a fresh process.
func shrink(bb *builtBin, b *Batch, prop string, choices []uint32, want *Violation, budget time.Duration) []uint32 {
	deadline := time.Now().Add(budget)
	cur := append([]uint32(nil), choices...)
	// trailing choices that were never drawn are irrelevant; trim zeros at the end lazily
	par := 12
	tryMany := func(cands [][]uint32) int {
		// returns index of first (lowest) candidate that still fails, or -1
		res := make([]bool, len(cands))
		var wg sync.WaitGroup
		sem := make(chan struct{}, par)
		for i := range cands {
			if time.Now().After(deadline) {
				break
			}
			wg.Add(1)
			sem <- struct{}{}
			go func(i int) {
				defer wg.Done()
				defer func() { <-sem }()
				v, _ := replayOnce(bb, b, prop, cands[i], fmt.Sprintf("s%d-%d", os.Getpid(), i))
				res[i] = sameClass(v, want)
			}(i)
		}
		wg.Wait()
		for i, ok := range res {
			if ok {
				return i
			}
		}
		return -1
	}
	improved := true
	for improved && time.Now().Before(deadline) {
		improved = false
		// 1. delete chunks, large to small
		for size := len(cur) / 2; size >= 1 && time.Now().Before(deadline); {
			var cands [][]uint32
			var starts []int
			for st := 0; st+size <= len(cur); st += size {
				c := append(append([]uint32(nil), cur[:st]...), cur[st+size:]...)
				cands = append(cands, c)
				starts = append(starts, st)
				if len(cands) >= 4*par {
					break
				}
			}
			if i := tryMany(cands); i >= 0 {
				cur = cands[i]
				improved = true
				if size > len(cur)/2 {
					size = len(cur) / 2
				}
				continue
			}
			size /= 2
		}
		// 2. truncate the tail
		for len(cur) > 0 && cur[len(cur)-1] == 0 {
			cur = cur[:len(cur)-1]
		}
		// 3. lower individual values to 0, then halve
		var cands [][]uint32
		var pos []int
		for i, v := range cur {
			if v != 0 {
				c := append([]uint32(nil), cur...)
				c[i] = 0
				cands = append(cands, c)
				pos = append(pos, i)
			}
		}
		for len(cands) > 0 && time.Now().Before(deadline) {
			n := len(cands)
			if n > 2*par {
				n = 2 * par
			}
			batch, bpos := cands[:n], pos[:n]
			cands, pos = cands[n:], pos[n:]
			res := make([]bool, n)
			var wg sync.WaitGroup
			for i := range batch {
				wg.Add(1)
				go func(i int) {
					defer wg.Done()
					v, _ := replayOnce(bb, b, prop, batch[i], fmt.Sprintf("z%d-%d", os.Getpid(), i))
					res[i] = sameClass(v, want)
				}(i)
			}
			wg.Wait()
			// apply all individually successful zeroings together if the combination still fails
			comb := append([]uint32(nil), cur...)
			any := false
			for i, ok := range res {
				if ok {
					comb[bpos[i]] = 0
					any = true
				}
			}
			if any {
				if v, _ := replayOnce(bb, b, prop, comb, fmt.Sprintf("c%d", os.Getpid())); sameClass(v, want) {
					cur = comb
					improved = true
				} else {
					for i, ok := range res {
						if ok {
							c := append([]uint32(nil), cur...)
							c[bpos[i]] = 0
							if v, _ := replayOnce(bb, b, prop, c, fmt.Sprintf("d%d", os.Getpid())); sameClass(v, want) {
								cur = c
								improved = true
							}
						}
					}
				}
				// positions changed value; rebuild remaining candidates against cur
				var nc [][]uint32
				for _, p := range pos {
					c := append([]uint32(nil), cur...)
					c[p] = 0
					nc = append(nc, c)
				}
				cands = nc
			}
		}
	}
	return cur
}

// ---- known findings --------------------------------------------------------------

type finding struct {
	kind, prop, sig, text string
}

var findings []finding

func loadFindings() {
	data, err := os.ReadFile(filepath.Join(verifDir, "known_findings.txt"))
	if err != nil {
		return
	}
	for _, line := range strings.Split(string(data), "\n") {
		line = strings.TrimSpace(line)
		if line == "" || strings.HasPrefix(line, "#") {
			continue
		}
		var f finding
		switch {
		case strings.HasPrefix(line, "finding:"):
			f.kind = "finding"
			line = strings.TrimSpace(strings.TrimPrefix(line, "finding:"))
		case strings.HasPrefix(line, "fixed:"):
			f.kind = "fixed"
			line = strings.TrimSpace(strings.TrimPrefix(line, "fixed:"))
		default:
			continue
		}
		for _, tok := range strings.Fields(line) {
			if strings.HasPrefix(tok, "property=") && f.prop == "" {
				f.prop = strings.TrimPrefix(tok, "property=")
			} else if strings.HasPrefix(tok, "signature=") && f.sig == "" {
				f.sig = strings.TrimPrefix(tok, "signature=")
			}
		}
		f.text = line
		findings = append(findings, f)
	}
}

// knownEnv lists the signatures of open findings; a worker counts them instead of
// stopping so that a listed finding hides only itself. (Every property sees every open
// finding: a scenario shared by several properties must not trip over a finding that
// is filed under a sibling property.)
func knownEnv(prop string) string {
	var s []string
	for _, f := range findings {
		if f.kind == "finding" {
			s = append(s, f.sig)
		}
	}
	return strings.Join(s, ";")
}

func isKnown(v *Violation) *finding {
	for i, f := range findings {
		if f.kind == "finding" && f.sig == v.Signature {
			return &findings[i]
		}
	}
	return nil
}

// ---- main ------------------------------------------------------------------------

func usage() {
	fmt.Fprintln(os.Stderr, "usage: check <property-id> [quick|thorough] [--replay <file>] [--keep] [--runs N] [--selftest-determinism]")
	os.Exit(2)
}

func main() {
	if len(os.Args) < 2 {
		usage()
	}
	prop := os.Args[1]
	tier := os.Getenv("VERIF_TIER")
	if tier == "" {
		tier = "quick"
	}
	replayPath := ""
	runsOverride := 0
	detTest := false
	for i := 2; i < len(os.Args); i++ {
		switch a := os.Args[i]; a {
		case "quick", "thorough":
			tier = a
		case "--replay":
			i++
			replayPath = os.Args[i]
		case "--keep":
			keep = true
		case "--runs":
			i++
			runsOverride, _ = strconv.Atoi(os.Args[i])
		case "--selftest-determinism":
			detTest = true
		default:
			usage()
		}
	}
	if d := os.Getenv("VERIF_DIR"); d != "" {
		verifDir = d
	}
	if d := os.Getenv("VERIF_REPO"); d != "" {
		repoDir = d
	}
	seed := uint64(1)
	if s := os.Getenv("VERIF_SEED"); s != "" {
		if v, err := strconv.ParseUint(s, 10, 64); err == nil {
			seed = v
		} else if v, err := strconv.ParseInt(s, 10, 64); err == nil {
			seed = uint64(v)
		}
	}
	goEnv = baseEnv()
	spec, ok := props[prop]
	if !ok {
		die(2, "unknown or unclaimed property %q", prop)
	}
	loadFindings()
	ensureTools()
	prepareScratch("v2")
	defer cleanup()
	start := time.Now()

	if replayPath != "" {
		os.Exit(doReplay(prop, spec, replayPath))
	}
	if detTest {
		os.Exit(doDeterminism(prop, spec, tier, seed))
	}

	fmt.Printf("VERIF_SEED=%d property=%s tier=%s\n", seed, prop, tier)
	ev := newEvidence(prop, tier, seed, spec)
	exit := 0
	var knownPrinted = map[string]bool{}
	for bi := range spec.Batches {
		b := &spec.Batches[bi]
		if os.Getenv("VCHECK_FORCE_ROOT") != "" && b.Pkg == "scen/s4" && b.Module == "" {
			b.Module = "root" // exploration aid: run a property's S4 batches against the root module
		}
		if os.Getenv("VCHECK_FORCE_BKERN") != "" && !b.Bubble && b.Module == "" && (b.Pkg == "scen/s4" || b.Pkg == "scen/s2" || b.Pkg == "scen/s1") {
			b.Bubble, b.Tags = true, "bkern" // exploration aid: run a token-kernel batch on the bubble kernel
		}
		if only := os.Getenv("VCHECK_ONLY"); only != "" && !strings.Contains(b.Module+":"+b.Scen+":"+b.Cfg+":"+b.Tags, only) {
			continue // debugging aid: run only the batches whose "module:scenario:cfg" contains the given text
		}
		allowSkipBuild = true
		bb := buildScenario(b)
		allowSkipBuild = false
		if bb == nil {
			ev.foreign = append(ev.foreign, "batch-not-buildable:"+b.Pkg+":"+b.Scen+":"+b.Cfg)
			skippedBuilds++
			if skippedBuilds == len(spec.Batches) {
				die(2, "no batch of %s could be built against this tree (exit 2: build trouble, not a violation)", prop)
			}
			continue
		}
		runs := b.Quick
		secs := b.QuickSecs
		if tier == "thorough" {
			runs, secs = b.Thorough, b.ThoroughSecs
		}
		if sc := os.Getenv("VERIF_BUDGET_SCALE"); sc != "" {
			// scales the tier's budget (used for validation sweeps of the thorough tier)
			if f, err := strconv.ParseFloat(sc, 64); err == nil && f > 0 {
				runs = int(float64(runs) * f)
				secs *= f
				if runs < 16 {
					runs = 16
				}
			}
		}
		if runsOverride > 0 {
			runs = runsOverride
		}
		nw := 16
		if b.Workers > 0 {
			nw = b.Workers
		}
		if runs < nw*4 {
			nw = 1 + runs/8
		}
		per := (runs + nw - 1) / nw
		// jobs: consecutive run ranges, one worker process each. Back end B leaves goroutines of the library under
		// test behind in every run (TreeCache watchers that nobody will ever receive from), so its processes are
		// kept short: many processes of a few thousand runs instead of one per worker slot.
		chunk := per
		if b.Bubble && chunk > 4000 {
			chunk = 4000
		}
		type job struct{ from, to int }
		var jobs []job
		for f := 0; f < runs; f += chunk {
			t := f + chunk
			if t > runs {
				t = runs
			}
			jobs = append(jobs, job{f, t})
		}
		outs := make([]*workerOut, len(jobs))
		froms := make([]int, len(jobs))
		var wg sync.WaitGroup
		t0 := time.Now()
		sem := make(chan struct{}, nw)
		for ji := range jobs {
			wg.Add(1)
			sem <- struct{}{}
			go func(ji int) {
				defer wg.Done()
				defer func() { <-sem }()
				from, to := jobs[ji].from, jobs[ji].to
				froms[ji] = from
				jsecs := secs
				if per > 0 {
					jsecs = secs * float64(to-from) / float64(per)
				}
				env := workerEnv(b, prop, "VW_MODE=search", fmt.Sprintf("VW_SEED=%d", seed), fmt.Sprintf("VERIF_SEED=%d", seed),
					fmt.Sprintf("VW_FROM=%d", from), fmt.Sprintf("VW_TO=%d", to), fmt.Sprintf("VW_SECONDS=%g", jsecs), "VW_KNOWN="+knownEnv(prop))
				outs[ji] = runWorker(bb.path, env, filepath.Join(scratch, fmt.Sprintf("res-%d-%d.json", bi, ji)), time.Duration(jsecs+600)*time.Second)
			}(ji)
		}
		wg.Wait()
		logf("batch %s/%s cfg=%q: %d workers done in %.1fs", b.Pkg, b.Scen, b.Cfg, nw, time.Since(t0).Seconds())
		// merge; find the violation with the lowest run index
		var best *Violation
		var bestChoices []uint32
		bestRun := -1
		bestFrom := 0
		var bestWo *workerOut
		skipBatch, skipNoted := false, false
		for wi, wo := range outs {
			if wo.res != nil {
				ev.merge(b, wo.res, bb)
			}
			v, ch, vr := classify(wo, prop, b.HangIsViolation, b)
			if v == nil {
				continue
			}
			if v.Property == "HARNESS" && v.Oracle == "hang" && !b.Bubble && hasBubbleKernelBatch(spec) {
				// Back end A could not follow this code: a task waited for another one on something the sync shim
				// does not cover (a channel, say) while it held the token. The property also has a batch on back
				// end B's bubble kernel, where every primitive blocks natively: that one gives the verdict.
				if !skipNoted {
					logf("note: the token kernel cannot follow this code in %s cfg=%q (a task blocked outside the sync shim while holding the token); this batch is skipped, the bubble-kernel batch decides", b.Scen, b.Cfg)
					ev.foreign = append(ev.foreign, "skipped-by-token-kernel:"+b.Scen+":"+b.Cfg)
					skipNoted = true
				}
				skipBatch = true
				continue
			}
			if v.Property == "HARNESS" && v.Oracle == "worker-crash" && strings.Contains(b.Tags, "bkern") &&
				(strings.Contains(v.Message, "multiple synctest bubbles") || strings.Contains(v.Message, "from outside bubble")) {
				// The mirror case: every run of back end B is a bubble of its own, and the runtime refuses
				// synchronisation objects that travel from one bubble to the next (a package-level pool of
				// WaitGroups, a channel kept in a global). The token-kernel batches of the property decide.
				if !skipNoted {
					logf("note: the bubble kernel cannot follow this code in %s cfg=%q (synchronisation objects outlive a run); this batch is skipped, the token-kernel batches decide", b.Scen, b.Cfg)
					ev.foreign = append(ev.foreign, "skipped-by-bubble-kernel:"+b.Scen+":"+b.Cfg)
					skipNoted = true
				}
				skipBatch = true
				continue
			}
			if v.Property == "HARNESS" {
				die(2, "harness trouble in %s: %s: %s", b.Scen, v.Oracle, v.Message)
			}
			if best == nil || (vr >= 0 && vr < bestRun) {
				best, bestChoices, bestRun, bestWo, bestFrom = v, ch, vr, wo, froms[wi]
			}
		}
		// known findings that were hit (and skipped) by the workers
		for sig, n := range ev.known {
			if n > 0 && !knownPrinted[sig] {
				for _, f := range findings {
					if f.kind == "finding" && f.sig == sig {
						fmt.Printf("KNOWN-FINDING: property=%s %s (hit %d times in this run)\n", f.prop, strings.TrimPrefix(f.text, "property="+f.prop+" "), n)
						knownPrinted[sig] = true
					}
				}
			}
		}
		if skipBatch {
			continue
		}
		if best == nil {
			continue
		}
		if !spec.owns(best.Property) {
			// a violation of a sibling property surfaced in a shared scenario: it is
			// reported by that property's own check; here it only must not be silent
			logf("note: scenario %s hit a violation filed under %s (%s) — reported by ./check %s", b.Scen, best.Property, best.Signature, best.Property)
			ev.foreign = append(ev.foreign, best.Property+":"+best.Signature)
			continue
		}
		if best.Oracle == "hang" {
			// cannot be replayed in-process safely; report with the seed and run index
			path := writeReplay(prop, b, seed, bestRun, best, nil, nil, 0, "")
			fmt.Printf("VIOLATION property=%s replay=%s\n", prop, path)
			fmt.Printf("  oracle=%s %s\n", best.Oracle, firstLines(best.Message, 5))
			ev.violations++
			exit = 1
			break
		}
		logf("violation candidate in run %d: %s/%s — confirming by replay in a fresh process", bestRun, best.Oracle, best.Signature)
		v2, wo2 := replayOnce(bb, b, prop, bestChoices, "confirm")
		if best.Oracle == "race" {
			// The race detector keeps four accesses per eight bytes and evicts at random: whether it still remembers
			// the first access of a racing pair when the second arrives is a matter of chance, so an execution that
			// repeats exactly may or may not repeat the report. The report a worker saw is real (the detector has no
			// false positives); a replay is given a few attempts to show it again.
			for attempt := 0; attempt < 4 && !sameClass(v2, best); attempt++ {
				v2, wo2 = replayOnce(bb, b, prop, bestChoices, "confirm")
			}
		}
		if !sameClass(v2, best) && v2 != nil && v2.Property == best.Property && isKnown(v2) == nil {
			logf("the replay of run %d shows %s/%s instead of %s/%s: same property, another detail — an order the simulator does not own decides which; reporting what the replays show", bestRun, v2.Oracle, v2.Signature, best.Oracle, best.Signature)
			best = v2
			looseClass = true
		}
		if !sameClass(v2, best) {
			got := "none"
			if v2 != nil {
				got = v2.Oracle + "/" + v2.Signature
			}
			// The run alone does not show it. Before calling it non-reproducible: state inside the code under
			// test (a package-level cache, a pool) may have survived from earlier runs of the same worker
			// process. Those runs are a pure function of the seed, so "runs from..run in one fresh process" is
			// an exact replay too; find the shortest such history.
			logf("run %d alone does not reproduce it (got %s): replaying it with the preceding runs of its process", bestRun, got)
			hist := -1
			var vh *Violation
			var woh *workerOut
			for back := 1; ; back *= 2 {
				from := bestRun - back
				if from < bestFrom {
					from = bestFrom
				}
				v, wo, vr := historyOnce(bb, b, prop, seed, from, bestRun, "hist")
				for attempt := 0; best.Oracle == "race" && attempt < 2 && !(sameClass(v, best) && vr == bestRun); attempt++ {
					v, wo, vr = historyOnce(bb, b, prop, seed, from, bestRun, "hist")
				}
				if sameClass(v, best) && vr == bestRun {
					hist, vh, woh = from, v, wo
					break
				}
				if from == bestFrom {
					break
				}
			}
			if hist < 0 {
				die(2, "violation %s/%s (run %d) did not reproduce on replay (got %s), neither alone nor with the preceding runs %d..%d of its process: reported as non-reproducible, not as a violation\n%s", best.Oracle, best.Signature, bestRun, got, bestFrom, bestRun, lastLines(bestWo.output, 30)+"\n"+lastLines(wo2.output, 30))
			}
			// confirm once more (a history replay must itself be repeatable)
			again := false
			for attempt := 0; attempt < 4 && !again; attempt++ {
				v, _, vr := historyOnce(bb, b, prop, seed, hist, bestRun, "hist2")
				again = sameClass(v, best) && vr == bestRun
				if best.Oracle != "race" {
					break // only the race detector's memory is a matter of chance
				}
			}
			if !again && best.Oracle == "race" {
				logf("the race report of run %d showed again in one of the history replays, not in the next four: the detector's memory of earlier accesses is evicted at random; reported (the report of the worker and of that replay are real executions)", bestRun)
				again = true
			}
			if !again {
				die(2, "violation %s/%s (run %d) reproduced once with runs %d..%d but not twice: reported as non-reproducible, not as a violation", best.Oracle, best.Signature, bestRun, hist, bestRun)
			}
			vh.Message += fmt.Sprintf("\n[needs the runs %d..%d of seed %d executed in one process: state inside the code under test survives from one run to the next; the replay re-executes exactly those runs]", hist, bestRun, seed)
			var trace []Event
			if woh.res != nil {
				trace = woh.res.Trace
			}
			path := writeReplay(prop, b, seed, bestRun, vh, bestChoices, trace, len(bestChoices), woh.raceLog)
			setHistory(path, hist)
			if f := isKnown(vh); f != nil {
				fmt.Printf("KNOWN-FINDING: property=%s %s\n", f.prop, strings.TrimPrefix(f.text, "property="+f.prop+" "))
				os.Remove(path)
				continue
			}
			fmt.Printf("VIOLATION property=%s replay=%s\n", prop, path)
			fmt.Printf("  oracle=%s signature=%s seed=%d runs=%d..%d (history replay)\n  %s\n", vh.Oracle, vh.Signature, seed, hist, bestRun, firstLines(vh.Message, 12))
			ev.violations++
			ev.violSample = fmt.Sprintf("%s/%s: %s", vh.Oracle, vh.Signature, firstLines(vh.Message, 3))
			exit = 1
			break
		}
		budget := 90 * time.Second
		if tier == "thorough" {
			budget = 240 * time.Second
		}
		min := shrink(bb, b, prop, bestChoices, best, budget)
		v3, wo3 := replayOnce(bb, b, prop, min, "final")
		if !sameClass(v3, best) {
			min = bestChoices
			v3, wo3 = replayOnce(bb, b, prop, min, "final")
		}
		var trace []Event
		if wo3.res != nil {
			trace = wo3.res.Trace
			if len(wo3.res.Choices) < len(min) {
				min = wo3.res.Choices // drop draws the run never consumed
			}
		}
		if v3 == nil {
			v3 = best
		}
		path := writeReplay(prop, b, seed, bestRun, v3, min, trace, len(bestChoices), wo3.raceLog)
		if f := isKnown(v3); f != nil {
			fmt.Printf("KNOWN-FINDING: property=%s %s\n", f.prop, strings.TrimPrefix(f.text, "property="+f.prop+" "))
			os.Remove(path)
			continue
		}
		fmt.Printf("VIOLATION property=%s replay=%s\n", prop, path)
		fmt.Printf("  oracle=%s signature=%s seed=%d run=%d choices=%d (from %d)\n  %s\n", v3.Oracle, v3.Signature, seed, bestRun, len(min), len(bestChoices), firstLines(v3.Message, 12))
		ev.violations++
		ev.violSample = fmt.Sprintf("%s/%s: %s", v3.Oracle, v3.Signature, firstLines(v3.Message, 3))
		exit = 1
		break
	}
	ev.write(time.Since(start).Seconds())
	if exit == 0 {
		fmt.Printf("OK property=%s tier=%s runs=%d distinct_schedules=%d wall=%.0fs\n", prop, tier, ev.runs, len(ev.scheds), time.Since(start).Seconds())
	}
	cleanup()
	os.Exit(exit)
}

func hasBubbleKernelBatch(spec *PropSpec) bool {
	for i := range spec.Batches {
		if strings.Contains(spec.Batches[i].Tags, "bkern") {
			return true
		}
	}
	return false
}

func moduleName(b *Batch) string {
	if b.Module == "" {
		return "v2"
	}
	return b.Module
}

func writeReplay(prop string, b *Batch, seed uint64, runIdx int, v *Violation, choices []uint32, trace []Event, orig int, raceLog string) string {
	dir := filepath.Join(verifDir, "replays")
	os.MkdirAll(dir, 0755)
	path := filepath.Join(dir, fmt.Sprintf("%s-%s-%d-%d.json", prop, b.Scen, seed, runIdx))
	head, _ := run(repoDir, goEnv, "git", "rev-parse", "HEAD")
	tc, _ := run(repoDir, goEnv, "go", "version")
	if len(trace) > 4000 {
		trace = trace[len(trace)-4000:]
	}
	rf := ReplayFile{Property: v.Property, Oracle: v.Oracle, Signature: v.Signature, Scenario: b.Scen, Pkg: b.Pkg, Cfg: b.Cfg, Module: moduleName(b),
		Seed: seed, Run: runIdx, Choices: choices, Original: orig, Trace: trace, Message: v.Message, RaceLog: firstLines(raceLog, 120),
		Toolchain: strings.TrimSpace(tc), RepoHead: strings.TrimSpace(head)}
	data, _ := json.MarshalIndent(rf, "", " ")
	os.WriteFile(path, data, 0644)
	return path
}

func doReplay(prop string, spec *PropSpec, path string) int {
	data, err := os.ReadFile(path)
	if err != nil {
		die(2, "%v", err)
	}
	var rf ReplayFile
	if err := json.Unmarshal(data, &rf); err != nil {
		die(2, "%v", err)
	}
	var b *Batch
	for i := range spec.Batches {
		if spec.Batches[i].Scen == rf.Scenario && spec.Batches[i].Cfg == rf.Cfg && moduleName(&spec.Batches[i]) == rf.Module {
			b = &spec.Batches[i]
		}
	}
	if b == nil {
		for i := range spec.Batches {
			if spec.Batches[i].Scen == rf.Scenario && moduleName(&spec.Batches[i]) == rf.Module {
				bb := spec.Batches[i]
				bb.Cfg = rf.Cfg
				b = &bb
			}
		}
	}
	if b == nil {
		// a replay file of another module's batch of the same scenario (exploration runs)
		for i := range spec.Batches {
			if spec.Batches[i].Scen == rf.Scenario {
				bb := spec.Batches[i]
				bb.Cfg = rf.Cfg
				if rf.Module == "root" {
					bb.Module = "root"
				}
				b = &bb
			}
		}
	}
	if b == nil {
		die(2, "replay file names scenario %q which property %s does not run", rf.Scenario, prop)
	}
	bb := buildScenario(b)
	var v *Violation
	var wo *workerOut
	attempts := 1
	if rf.Oracle == "race" {
		attempts = 6 // the race detector's memory of earlier accesses is evicted at random (see the confirmation step)
	}
	for a := 0; a < attempts && v == nil; a++ {
		if rf.HistoryFrom != nil {
			var vr int
			v, wo, vr = historyOnce(bb, b, prop, rf.Seed, *rf.HistoryFrom, rf.Run, "replay")
			if v != nil && vr != rf.Run {
				fmt.Printf("note: the history replay failed in run %d, the recorded one in run %d\n", vr, rf.Run)
			}
		} else {
			v, wo = replayOnce(bb, b, prop, rf.Choices, "replay")
		}
	}
	if v == nil {
		fmt.Printf("replay of %s: no violation (the recorded one was %s/%s)\n", path, rf.Oracle, rf.Signature)
		return 0
	}
	if v.Property == "HARNESS" {
		die(2, "harness trouble on replay: %s", v.Message)
	}
	fmt.Printf("VIOLATION property=%s replay=%s\n  oracle=%s signature=%s\n  %s\n", v.Property, path, v.Oracle, v.Signature, firstLines(v.Message, 30))
	if wo.res != nil {
		fmt.Printf("  trace_hash=%s events=%d\n", wo.res.TraceHash, len(wo.res.Trace))
	}
	return 1
}

// doDeterminism is the §2.8 protocol: the same seeds, several processes, several
// GOMAXPROCS values; the hash over all schedule hashes must be identical.
func doDeterminism(prop string, spec *PropSpec, tier string, seed uint64) int {
	bad := 0
	for bi := range spec.Batches {
		b := &spec.Batches[bi]
		bb := buildScenario(b)
		type key struct{ from int }
		hashes := map[int]map[string]int{}
		var mu sync.Mutex
		var wg sync.WaitGroup
		sem := make(chan struct{}, 8)
		procs := []string{"1", "4", "16", "32"}
		if b.Bubble {
			// back end B is only claimed at one P: repeat the same setting instead
			procs = []string{"1", "1", "1", "1"}
		}
		n := 0
		for chunk := 0; chunk < 8; chunk++ {
			for _, p := range procs {
				wg.Add(1)
				n++
				go func(chunk int, p string, n int) {
					defer wg.Done()
					sem <- struct{}{}
					defer func() { <-sem }()
					env := workerEnv(b, prop, "VW_MODE=search", fmt.Sprintf("VW_SEED=%d", seed), fmt.Sprintf("VERIF_SEED=%d", seed),
						fmt.Sprintf("VW_FROM=%d", chunk*40), fmt.Sprintf("VW_TO=%d", chunk*40+40))
					env = append(env, "GOMAXPROCS="+p)
					if b.Bubble {
						env = append(env, "GODEBUG=asyncpreemptoff=1,randautoseed=0", "GOGC=off")
					}
					wo := runWorker(bb.path, env, filepath.Join(scratch, fmt.Sprintf("det-%d-%d.json", bi, n)), 10*time.Minute)
					h := "noresult"
					if wo.res != nil {
						h = wo.res.AllHash + "/" + wo.res.OutHash + fmt.Sprintf("/%d/%v", wo.res.Runs, wo.res.Viol != nil)
					}
					mu.Lock()
					if hashes[chunk] == nil {
						hashes[chunk] = map[string]int{}
					}
					hashes[chunk][h]++
					mu.Unlock()
				}(chunk, p, n)
			}
		}
		wg.Wait()
		for chunk, m := range hashes {
			if len(m) != 1 {
				bad++
				fmt.Printf("NONDETERMINISTIC scenario=%s cfg=%q chunk=%d hashes=%v\n", b.Scen, b.Cfg, chunk, m)
			}
		}
		fmt.Printf("determinism scenario=%s cfg=%q: %d processes (GOMAXPROCS %v x 8 seed chunks of 40 runs; schedule-hash and output-digest compared), divergent chunks so far=%d\n", b.Scen, b.Cfg, n, procs, bad)
	}
	if bad > 0 {
		return 2
	}
	return 0
}
