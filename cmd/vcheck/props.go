package main

import "strings"

// Seams says which build-time rewrites a scenario binary needs (see cmd/instrument).
type Seams struct {
	Sync     string // package suffixes whose "sync" import is swapped for the shim
	MapOrder string // package suffixes (or "all") whose range-over-map sites are controlled
	Os       string // package suffixes whose destructive os calls go through simos
	Add      string // verif-relative-file=repo-v2-relative-pkgdir,... (in-package export files)
}

func (s Seams) key() string { return s.Sync + "|" + s.MapOrder + "|" + s.Os + "|" + s.Add }

// Batch is one (scenario, configuration) searched for a property.
type Batch struct {
	Pkg             string // scenario package below /verif (copied into the scratch module)
	Scen            string
	Cfg             string
	Seams           Seams
	Quick, Thorough int     // number of simulated runs
	QuickSecs       float64 // wall budget per worker (0 = none)
	ThoroughSecs    float64
	Workers         int
	NoRace          bool
	HangIsViolation bool
	Prepare         func(overlay string)
	Real, Stub      []string
}

type PropSpec struct {
	ID      string
	Also    []string // sibling property ids whose oracles this check also reports (none by default)
	Batches []Batch
	Rule    string
	Assume  []string
}

func (p *PropSpec) owns(prop string) bool {
	if prop == p.ID {
		return true
	}
	for _, a := range p.Also {
		if a == prop {
			return true
		}
	}
	return false
}

var seamsS1 = Seams{Sync: "d2/lazymap,restlicodec", Add: "overlayfiles/restlicodec/zz_verif_export.go=restlicodec"}

var props = map[string]*PropSpec{}

func reg(p *PropSpec) { props[p.ID] = p }

func init() {
	reg(&PropSpec{
		ID: "C18",
		Batches: []Batch{
			{Pkg: "scen/s1", Scen: "lazymap", Cfg: "", Seams: seamsS1, Quick: 40000, Thorough: 3000000, ThoroughSecs: 1500,
				Real: []string{"v2/d2/lazymap (LoadOrStore, Load, Store; only its sync import is swapped for the scheduler-aware shim, which calls the real sync.Map / sync.WaitGroup)"},
				Stub: []string{"goroutine scheduling (token kernel)"}},
			{Pkg: "scen/s1", Scen: "lazymap", Cfg: "deepcompute=1,keys=1", Seams: seamsS1, Quick: 10000, Thorough: 500000, ThoroughSecs: 600},
		},
		Rule: "each run draws 2-4 client tasks x 1-3 operations from {LoadOrStore(k,f), Load(k), Store(k,v)} over 2 keys (every value unique; f yields inside the computation) and one schedule (uniform / PCT priorities / sticky) from the choice stream; yield points are the shim's sync.Map and WaitGroup operations. A case is non-trivial and distinct by its (workload text) — two runs with the same operations but different schedules count once here; distinct schedules are reported separately as distinct_schedules (hash of the executed (task, yield point) sequence).",
		Assume: []string{
			"sync.Map and sync.WaitGroup operations are atomic steps (the shim yields before each, then calls the real one)",
			"exploration is sampled, not exhaustive: a clean batch is evidence, not proof",
			"porcupine v1.3.0 decides linearizability of each recorded history (Unknown = timeout is counted as a probe, never reported)",
		},
	})
}

func joinNonEmpty(s ...string) string {
	var o []string
	for _, x := range s {
		if x != "" {
			o = append(o, x)
		}
	}
	return strings.Join(o, ",")
}
