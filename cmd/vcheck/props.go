package main

import (
	"fmt"
	"strings"
)

// Seams says which build-time rewrites a scenario binary needs (see cmd/instrument).
type Seams struct {
	Sync     string // package suffixes whose "sync" import is swapped for the shim
	MapOrder string // package suffixes (or "all") whose range-over-map sites are controlled
	Os       string // package suffixes whose destructive os calls go through simos
	Add      string // verif-relative-file=repo-v2-relative-pkgdir,... (in-package export files)
	ZkMap    bool   // also control range-over-map in the go-zookeeper/zk client (a writable copy replaces the module)
}

func (s Seams) key() string {
	return s.Sync + "|" + s.MapOrder + "|" + s.Os + "|" + s.Add + "|" + fmt.Sprint(s.ZkMap)
}

// Batch is one (scenario, configuration) searched for a property.
type Batch struct {
	Pkg             string // scenario package below /verif (copied into the scratch module)
	Scen            string
	Cfg             string
	Seams           Seams
	Quick, Thorough int     // number of simulated runs
	QuickSecs       float64 // wall budget per worker (0 = none)
	ThoroughSecs    float64
	Workers         int
	Tags            string // extra build tags (bkern: the scenario runs on back end B's bubble kernel)
	NoRace          bool
	HangIsViolation bool
	RaceProp        string // property a race report in this batch is filed under (default C17)
	RaceOwn         string // ... but only if its signature mentions this substring
	Prepare         func(overlay string)
	Module          string // "" = the v2 module; "root" = the root module copy of the same code (scenario sources are import-path parametric)
	Bubble          bool   // back end B: built with go1.26.8 (testing/synctest), one P, no async preemption
	GenSim          bool   // needs the generator built as a simulated process (cmd/gensim + overlay)
	Family          bool   // needs the generated binding family (generator built from /repo's current tree)
	Real, Stub      []string
}

type PropSpec struct {
	ID      string
	Also    []string // sibling property ids whose oracles this check also reports (none by default)
	Batches []Batch
	Rule    string
	Assume  []string
}

func (p *PropSpec) owns(prop string) bool {
	if prop == p.ID {
		return true
	}
	for _, a := range p.Also {
		if a == prop {
			return true
		}
	}
	return false
}

var seamsS1 = Seams{Sync: "d2/lazymap,restlicodec", Add: "overlayfiles/restlicodec/zz_verif_export.go=restlicodec"}

var seamsS2 = Seams{Sync: "d2/lazymap,d2", MapOrder: "d2", Add: "overlayfiles/d2/zz_verif_export.go=d2"}

var props = map[string]*PropSpec{}

// onBubbleKernel is a token-kernel batch once more on back end B's bubble kernel (see reg)
func onBubbleKernel(b Batch, quick, thorough int) Batch {
	b.Bubble, b.Tags = true, "bkern"
	b.Quick, b.Thorough = quick, thorough
	b.Stub = append([]string{"which goroutine runs next: seeded Gosched coin at every shim point, seeded run queue and wake-up preemption (bubble kernel, sim/kern bkern.go)"}, b.Stub...)
	return b
}

func reg(p *PropSpec) {
	// S1 / S2 batches of C17 and C19 get a twin on the bubble kernel as well
	switch p.ID {
	case "C17", "C19":
		n := len(p.Batches)
		for i := 0; i < n; i++ {
			b := p.Batches[i]
			if (b.Pkg == "scen/s1" || b.Pkg == "scen/s2") && b.Module == "" && !b.Bubble {
				p.Batches = append(p.Batches, onBubbleKernel(b, b.Quick/4, b.Thorough/5))
			}
		}
	}
	// Every S4 batch (generated client -> simulated HTTP -> generated server) of these properties is mirrored
	// against the ROOT module: its own generator, runtime and generated family, same scenario sources with the
	// import paths rewritten (cmd/vcheck rootTransform). C09 is a v2-only property by statement.
	switch p.ID {
	case "C02", "C04", "C05", "C07", "C08", "C14", "C16", "C17":
		n := len(p.Batches)
		for i := 0; i < n; i++ {
			b := p.Batches[i]
			if b.Pkg != "scen/s4" || b.Module != "" {
				continue
			}
			if i == 0 || p.ID == "C17" {
				// ... and the first S4 batch (for C17: every S4 batch, under -race) once more on back end B's bubble
				// kernel: the same scenario on goroutines in a synctest bubble, where every blocking primitive is native.
				// It widens the set of schedules and it is the batch that decides when a future version of the code makes
				// tasks wait for each other on something the sync shim does not cover (the token kernel then cannot follow).
				k := p.Batches[i]
				k.Bubble, k.Tags = true, "bkern"
				k.Quick, k.Thorough = k.Quick*3/10, k.Thorough*2/10
				k.Stub = append([]string{"which goroutine runs next: seeded Gosched coin at every shim point, seeded run queue and wake-up preemption (bubble kernel, sim/kern bkern.go)"}, k.Stub...)
				defer func(k Batch) { p.Batches = append(p.Batches, k) }(k)
			}
			b.Module = "root"
			b.Quick = b.Quick * 2 / 5
			b.Thorough = b.Thorough * 3 / 10
			b.Real = []string{"ROOT module: restli client and server (routing, method inference, filters, tunnelling), restlicodec, restlidata, batchkeyset, and the family generated by the root module's own generator from family/root.spec.json"}
			p.Batches = append(p.Batches, b)
		}
	}
	// The thorough tier of one property is meant to finish within about forty minutes on this machine: with the
	// root-module and bubble-kernel twins the token-kernel batches would take half as long again, so their run
	// counts are scaled down (the S3 bubbles and the generator processes keep theirs).
	for i := range p.Batches {
		switch p.Batches[i].Pkg {
		case "scen/s1", "scen/s2", "scen/s4":
			p.Batches[i].Thorough = p.Batches[i].Thorough * 6 / 10
		}
	}
	props[p.ID] = p
}

func init() {
	reg(&PropSpec{
		ID: "C18",
		Batches: []Batch{
			{Pkg: "scen/s1", Scen: "lazymap", Cfg: "", Seams: seamsS1, RaceProp: "C18", RaceOwn: "lazymap", Quick: 40000, Thorough: 3000000, ThoroughSecs: 1500,
				Real: []string{"v2/d2/lazymap (LoadOrStore, Load, Store; only its sync import is swapped for the scheduler-aware shim, which calls the real sync.Map / sync.WaitGroup)"},
				Stub: []string{"goroutine scheduling (token kernel)"}},
			{Pkg: "scen/s1", Scen: "lazymap", Cfg: "deepcompute=1,keys=1", Seams: seamsS1, RaceProp: "C18", RaceOwn: "lazymap", Quick: 10000, Thorough: 500000, ThoroughSecs: 600},
			// the same scenario on back end B's bubble kernel: goroutines in a synctest bubble, seeded Gosched at every
			// shim point, seeded run queue and wake-up preemption; blocking on anything (channels included) is native
			{Pkg: "scen/s1", Scen: "lazymap", Cfg: "", Seams: seamsS1, Bubble: true, Tags: "bkern", RaceProp: "C18", RaceOwn: "lazymap", Quick: 6000, Thorough: 300000, ThoroughSecs: 600,
				Real: []string{"v2/d2/lazymap on the bubble kernel (sim/kern bkern.go): real goroutines, real runtime scheduler on one P with the runtime seam"},
				Stub: []string{"which goroutine runs next (seeded: Gosched coin at shim points, run-queue order, wake-up preemption)"}},
			{Pkg: "scen/s1", Scen: "lazymap", Cfg: "", Module: "root", Seams: Seams{Sync: "d2/lazymap"}, RaceProp: "C18", RaceOwn: "lazymap", Quick: 10000, Thorough: 500000, ThoroughSecs: 600,
				Real: []string{"d2/lazymap of the root module (same scenario, import path switched)"}},
		},
		Rule: "each run draws 2-4 client tasks x 1-3 operations from {LoadOrStore(k,f), Load(k), Store(k,v)} over 2 keys (every value unique; f yields inside the computation) and one schedule (uniform / PCT priorities / sticky) from the choice stream; yield points are the shim's sync.Map and WaitGroup operations. A case is non-trivial and distinct by its (workload text) — two runs with the same operations but different schedules count once here; distinct schedules are reported separately as distinct_schedules (hash of the executed (task, yield point) sequence).",
		Assume: []string{
			"sync.Map and sync.WaitGroup operations are atomic steps (the shim yields before each, then calls the real one)",
			"exploration is sampled, not exhaustive: a clean batch is evidence, not proof",
			"porcupine v1.3.0 decides linearizability of each recorded history (Unknown = timeout is counted as a probe, never reported)",
		},
	})
}

func init() {
	reg(&PropSpec{
		ID: "C19",
		Batches: []Batch{
			{Pkg: "scen/s2", Scen: "feed", Cfg: "", Seams: seamsS2, NoRace: true, Quick: 60000, Thorough: 4000000, ThoroughSecs: 1500,
				Real: []string{"v2/d2: waitForUriUpdates / waitForServiceUpdates loops, handleUriUpdate, handleServiceUpdate, serviceUris.copy, chooseHost / filterAndChooseHost, Uri.UnmarshalJSON, ResolveHostnameAndContextForQuery, getServiceUris on pre-seeded state", "v2/d2/lazymap"},
				Stub: []string{"ZooKeeper and TreeCache (replaced by a pre-filled event channel, as in the repository's own tests)", "math/rand source behind d2.rng (values from the choice stream incl. exactly 0 and 1-2^-53)", "Go map iteration order in package d2 (permutation from the choice stream)", "goroutine scheduling (token kernel)"}},
			s3b("", 20000, 600000),
			s3b("tap=1", 25000, 800000),
			s3b("tap=1,hold=1", 30000, 1000000),
			s3b("tap=1,hold=1,pure=1", 20000, 600000),
			s3b("tap=1,nested=1", 60000, 2000000),
			s3b("tap=1,hold=1,nested=1", 10000, 400000),
			s3root("", 4000, 120000),
			s3root("tap=1", 2000, 80000),
			s3root("tap=1,hold=1", 2000, 80000),
			s3root("tap=1,nested=1", 2000, 60000),
			{Pkg: "scen/s2", Scen: "feed", Cfg: "", Module: "root", Seams: seamsS2, NoRace: true, Quick: 15000, Thorough: 1000000, ThoroughSecs: 900,
				Real: []string{"d2 of the root module (update loops, snapshots, host selection; same scenario, import path switched)"}},
		},
		Rule: "each run draws a service definition (6 prioritized-scheme lists), 0-2 pre-applied and 0-8 in-run announcement events over 3 znodes from {set (1-3 hosts x scheme x weight incl. 0 and non-dyadic), delete, malformed JSON, weight-less partition-only, root-path}, 0-2 service updates and 0-3 resolver tasks x 1-3 resolutions, plus the schedule, map orders and random values. A case is distinct by its (pre events, in-run events, service sequence) text and non-trivial when it has at least one event; schedules are counted separately.",
		Assume: []string{
			"the update loops are driven through the in-package entry points waitForUriUpdates / waitForServiceUpdates with a pre-filled channel (TreeCache's own coalescing is not part of this scenario)",
			"range-over-map in package d2 is rewritten to iterate in a simulator-chosen order with per-iteration loop variables (Go >= 1.22 semantics; v2/go.mod says 1.18, where the variable is per loop) — a bug that depends on capturing the per-loop variable would be masked",
			"sampled exploration; a clean batch is evidence, not proof",
		},
	})
}

func init() {
	reg(&PropSpec{
		ID:   "C17",
		Also: []string{"C08"}, // "no leakage of response status or error objects between requests": a C08 oracle that fires in these concurrent runs is this property's failure
		Batches: []Batch{
			{Pkg: "scen/s1", Scen: "registry", Cfg: "", Seams: seamsS1, Quick: 6000, Thorough: 300000, ThoroughSecs: 600,
				Real: []string{"v2/restlicodec custom-typeref registry (RegisterCustomTyperef, CustomTyperefMarshaler look-ups, sync.Map behind the shim)"},
				Stub: []string{"goroutine scheduling (token kernel; parking by raw pipe syscalls so the race detector sees only the program's own synchronisation)"}},
			{Pkg: "scen/s2", Scen: "feed", Cfg: "", Seams: seamsS2, Quick: 12000, Thorough: 600000, ThoroughSecs: 900,
				Real: []string{"v2/d2 update loops, snapshots, host selection incl. the package-level random generator (a real unsynchronised math/rand source is stepped on every draw), v2/d2/lazymap"},
				Stub: []string{"ZooKeeper / TreeCache (channel feed)", "values handed out by the random source", "map iteration order in package d2"}},
			s4race("outcomes=errors", 2500, 200000),
			s4race("late=1,filters=1,mounts=bare+mux+prefix", 2500, 200000),
			s4race("faults=lossy", 1500, 100000),
			s4race("outcomes=errors,filters=1,postfail=1", 1200, 100000),
			s3race("", 3000, 150000),
			s3race("tap=1", 3000, 150000),
		},
		Rule: "runs of scenarios S1-registry, S2-feed and S4-rpc under `go test -race` with the serial token scheduler: N concurrent tasks sharing one registry / one d2.Client / one handler and client (one S4 batch with the injected fault post-filter-fail; C08's status and error-object oracles count as this property's in these runs: leakage between requests); plus S3 (the real d2.Client, TreeCache and ZooKeeper client against the simulated ensemble, go1.26.8 bubble) under -race with seeded select order, run-queue order and wake-up preemption. A run is non-trivial when at least two tasks touch the shared object; distinct by workload text. Reports whose two access stacks lie wholly inside a third-party dependency (go-zookeeper's recvLoop/sendSetWatches race on lastZxid) are counted as probes, not reported: they are not go-restli's.",
		Assume: []string{
			"the token kernel parks tasks with raw read/write syscalls that ThreadSanitizer does not treat as synchronisation; every happens-before edge the detector sees is the program's own (plus one channel send/receive per simulated network message)",
			"the race detector keeps a bounded access history per memory word; runs are short to make eviction unlikely",
			"sampled exploration; a clean batch is evidence, not proof",
		},
	})
}

// S4: every repo package that imports sync (today: d2, lazymap, restlicodec's registry; tomorrow: whatever a
// change adds, e.g. a sync.Pool in the client) gets the scheduler-aware shim
var seamsS4 = Seams{Sync: "all"}

var s4Real = []string{"generated clients and server adapters (generated at check time by the generator from /repo's working tree)", "v2/restli client path (newRequest, formatQueryUrl, tunnelling, Do, DoAndUnmarshal), v2/restli handler/router/filters/Register* adapters", "v2/restlicodec readers and writers, batchkeyset, generated marshalers", "net/http: Client above the transport, Request.Write / ReadRequest / Response.Write / ReadResponse, ServeMux"}
var s4Stub = []string{"TCP and net/http's per-connection server loop (simulated transport)", "resource implementations (generated MockResource driven by the choice stream)", "goroutine scheduling (token kernel)"}
var s4Assume = []string{"the binding family (family/family.manifest.json: 12 types, 10 resources) bounds the 'programs' quantifier", "keep-alive, chunked transfer, 100-continue and HTTP/2 are not exercised (transport stub)", "sampled exploration; a clean batch is evidence, not proof"}

// s4b is one S4 batch without the race detector (semantic oracles decide; races are C17's).
func s4b(scen, cfg string, quick, thorough int) Batch {
	return Batch{Pkg: "scen/s4", Scen: scen, Cfg: cfg, Seams: seamsS4, Family: true, NoRace: true, Quick: quick, Thorough: thorough, ThoroughSecs: 1200, Real: s4Real, Stub: s4Stub}
}

// s4root is an S4 batch against the ROOT module (its own generator, runtime and generated family; same scenario
// sources, import paths rewritten).
func s4root(scen, cfg string, quick, thorough int) Batch {
	b := s4b(scen, cfg, quick, thorough)
	b.Module = "root"
	b.Real = []string{"ROOT module: restli client and server (routing, method inference, filters, tunnelling), restlicodec, restlidata, batchkeyset, and the family generated by the root module's own generator from family/root.spec.json"}
	return b
}

// s4race is an S4 batch under the race detector (C17).
func s4race(cfg string, quick, thorough int) Batch {
	b := s4b("rpc", cfg, quick, thorough)
	b.NoRace = false
	return b
}

func init() {
	reg(&PropSpec{
		ID: "C02",
		Batches: []Batch{
			s4b("rpc", "", 20000, 1500000),
			s4b("rpc", "mounts=bare+mux+prefix,bases=1", 15000, 800000),
			s4b("rpc", "faults=lossy,mounts=bare+mux+prefix", 15000, 800000),
		},
		Rule:   "each run draws 1-3 resources of the binding family, a mounting, a resolver base, strict/lenient client, 1-4 caller tasks x 1-4 calls (method and every argument by reflection from the choice stream, strings over an alphabet of all ROR2/JSON/URL metacharacters), the resource's reply, and the schedule. A case is distinct by (resource, method, mounting) of the first call; non-trivial always.",
		Assume: s4Assume,
	})
}

func init() {
	reg(&PropSpec{
		ID:   "C14",
		Also: []string{"C02"}, // in these batches a fidelity failure (exactly-once dispatch, equal arguments / results) is this property's failure
		Batches: []Batch{
			s4b("tunnel", "", 15000, 1000000),
			s4b("tunnel", "damage=1,strings=benign", 10000, 500000),
		},
		Rule:   "twin execution: each run draws 1-3 resources, 1-2 caller tasks x 1-3 calls; every call is issued through a client without tunnelling and then through one whose threshold is drawn from {1, len-1, len, len+1, 10^6, off} relative to the encoded query length of that call; second batch damages tunnelled requests (extra URL query, dropped query part, dropped body part, unknown part, empty query part). Distinct by (resource, method, threshold class).",
		Assume: s4Assume,
	})
}

func init() {
	reg(&PropSpec{
		ID:   "C08",
		Also: []string{"C16"}, // "per-key errors in batch responses arrive under the right key" is checked by the key-correlation oracle
		Batches: []Batch{
			s4b("rpc", "outcomes=errors", 20000, 1500000),
			s4b("rpc", "outcomes=errors,mounts=bare+mux+prefix,strings=benign", 8000, 500000),
			s4b("rpc", "outcomes=errors,filters=1,postfail=1", 8000, 400000),
		},
		Rule:   "as C02, but the resource's outcome for every call is drawn from {value, value with overridden status, *ErrorResponse with a random subset of its ten fields set (incl. none), plain error, panic, typed-nil entity with nil error}; up to two *ErrorResponse objects are shared by all calls of a run (1-4 concurrent callers). Error statuses include 303 and 299. Third batch: 0-3 filters and the injected fault post-filter-fail (for one call in three the first PostRequest to run fails once with a plain error); the call it hits may fail, the calls after it are judged in full. Distinct by (resource, method, mounting) of the first call.",
		Assume: s4Assume,
	})
}

func init() {
	reg(&PropSpec{
		ID:   "C05",
		Also: []string{"C02"}, // in these batches a fidelity failure (exactly-once dispatch, equal arguments / results) is this property's failure
		Batches: []Batch{
			s4b("rpc", "faults=strip,mounts=bare+mux+prefix", 15000, 800000),
			s4b("rpc", "filters=1,mounts=bare+mux+prefix", 12000, 600000),
			s4b("rpc", "route=damage,filters=1,mounts=bare+mux+prefix,strings=benign", 15000, 800000),
			s4b("rpc", "late=1,filters=1", 8000, 400000),
		},
		Rule:   "as C02, with one routing stress per batch: (1) an intermediary strips X-RestLi-Method from 60% of the requests (ground truth = the method the generated client named); (2) 0-3 recording filters, one of which may refuse; (3) every second request has its path damaged (unregistered resource, unknown sub-resource, dropped key, added key) and must be answered 404/400 without resource code or filters running; (4) a task registers a further resource on the Server after Handler() was taken while callers use the handler. Exactly-once dispatch to the named method is checked on every call. Distinct by (resource, method, mounting) of the first call.",
		Assume: append([]string{"the full verb x header x path decision table for foreign requests (other verbs, unknown header values, trailing slashes) is a pure table and is not enumerated here"}, s4Assume...),
	})
}

func init() {
	onlyBatch := "res=fam.prims+fam.strs+fam.byname+fam.bycolor+fam.cks+fam.prims.subs+fam.annotated"
	_ = onlyBatch
	reg(&PropSpec{
		ID:   "C16",
		Also: []string{"C02"}, // in these batches a fidelity failure (exactly-once dispatch, equal arguments / results) is this property's failure
		Batches: []Batch{
			s4b("rpc", "keys=adv,byz=1,methods=batch", 25000, 1500000),
			s4b("rpc", "keys=adv,byz=1,methods=batch,res=fam.cks", 10000, 600000),
		},
		Rule:   "as C02 restricted to batch_get / batch_update / batch_partial_update / batch_delete on every key type of the family (int64, string, string typeref, enum, complex key with params; string parent keys); key multisets are made adversarial (a duplicate under key equality — for complex keys a copy that differs only in params —, two complex keys in the same 32-bit FNV-1a bucket found by a birthday search, keys over the metacharacter alphabet) and the resource's reply may be Byzantine (one requested key dropped, or one unrequested key added to results or errors); every value unique. Distinct by (resource, method, mounting).",
		Assume: append([]string{"a reply that attaches a value to the wrong (but requested) key cannot be told from a correct one by any client and is not generated"}, s4Assume...),
	})
}

func init() {
	reg(&PropSpec{
		ID:   "C07",
		Also: []string{"C02"}, // in these batches a fidelity failure (exactly-once dispatch, equal arguments / results) is this property's failure
		Batches: []Batch{
			s4b("rpc", "res=fam.annotated+fam.annotatedre+fam.coonly+fam.roonly+fam.pfx,methods=excl", 15000, 1000000),
			s4b("rpc", "res=fam.annotated+fam.annotatedre+fam.coonly+fam.roonly+fam.pfx,methods=excl,byzclient=1", 15000, 1000000),
			s4b("rpc", "res=fam.annotated+fam.annotatedre+fam.coonly+fam.roonly+fam.pfx+fam.prims,mounts=bare+mux+prefix,byzclient=1", 6000, 400000),
		},
		Rule:   "calls to the annotated resource (readOnly: id, inner/b, items/*/b; createOnly: created, attrs/*/a) through create, batch_create, update, batch_update, partial_update, batch_partial_update with entities and patches drawn by reflection; the wire tap is parsed with encoding/json and must carry no value at an excluded path; the resource must see the entity minus exactly the excluded paths; a patch touching an excluded leaf must fail on the client with nothing sent; in the Byzantine-client batches half of the requests are rewritten to carry a value at an excluded path ($set, $delete, nested patch, array and map wildcards) and must be answered 400 without the resource running. Distinct by (resource, method, mounting).",
		Assume: append([]string{"only the family's six exclusion paths are exercised (they cross the leading-scope offsets 0, 1, 2 and 3 through the batch and patch variants); exactness for arbitrary specs up to depth 4 is a pure codec property and is not claimed"}, s4Assume...),
	})
}

func init() {
	h := func(cfg string, q, t int) Batch { b := s4b("rpc", cfg, q, t); b.HangIsViolation = true; return b }
	reg(&PropSpec{
		ID: "C04",
		Batches: []Batch{
			h("faults=hostile", 30000, 2000000),
			h("faults=hostile,res=fam.cks+fam.strs+fam.byname", 15000, 1000000),
			h("faults=hostile,mounts=bare+mux+prefix,strings=benign", 8000, 500000),
		},
		Rule:   "valid calls as in C02 (all key types, batch ids, infallible mocks), then exactly one damage per exchange drawn from {truncate, insert a ROR2/JSON/URL metacharacter, replace a byte, delete a byte, duplicate a span} at a drawn position of the request path keys, the query string, the request body, the response body or the X-RestLi-Id header (Content-Length adjusted: HTTP framing stays valid, the Rest.li payload does not). Non-trivial: a damage actually landed; distinct by (resource, method, mounting) of the first call.",
		Assume: append([]string{"decoder entry points no HTTP exchange reaches (untyped-value reader, raw-record decoder) and bounded exhaustive enumeration over the delimiter alphabet are pure input enumeration and not claimed", "a task that does not reach its next yield point within 20 s of wall time is reported as a hang (the 'never loops forever' clause)"}, s4Assume...),
	})
}

var seamsCanon = Seams{MapOrder: "all", Sync: "all"}

func init() {
	cb := func(cfg string, q, t int) Batch {
		b := s4b("canon", cfg, q, t)
		b.Seams = seamsCanon
		b.Stub = []string{"Go map iteration order at every range-over-map site of the v2 module (46 sites: writers, query builder, batch key sets, fnv1a map hashing, header copying, router tables), chosen by the simulator", "TCP (requests are handed to the handler in-process)", "resource implementations (mocks)"}
		return b
	}
	reg(&PropSpec{
		ID: "C09",
		Batches: []Batch{
			cb("", 12000, 800000),
			cb("outcomes=plain,res=fam.strs+fam.cks+fam.byname+fam.annotated", 6000, 400000),
		},
		Rule:   "each run plans 1-4 calls on 1-3 resources of the family (entities with maps in every position: map fields, maps of records, maps of maps, unions holding maps; finder / action parameter structs; batch key sets and batch entity maps of every key type) and serializes each call 3-7 times end to end (request line, query, headers, body; response headers and body): once with canonical map order and then with every range-over-map site iterating in a drawn permutation and batch keys supplied in a drawn order. Distinct by (resource, method).",
		Assume: append([]string{"byte identity across OS processes with different runtime hash seeds follows from permutation invariance at every instrumented site; sites the instrumenter could not rewrite are listed in the evidence (none today)", "root-module code is out of scope (C09 is a v2 property)"}, s4Assume...),
	})
}

var seamsS6 = Seams{Os: "codegen/utils,cmd", MapOrder: "all"}

func s6b(scen, cfg string, quick, thorough int) Batch {
	return Batch{Pkg: "scen/s6", Scen: scen, Cfg: cfg, Seams: seamsS6, GenSim: true, NoRace: true, Quick: quick, Thorough: thorough, ThoroughSecs: 1200,
		Real: []string{"v2/cmd.GenerateCode, ReadManifest, RegisterManifests, LocateCustomTyperefs, v2/codegen/* (type registry, code files, CleanTargetDir) — one OS process per generator run, built from /repo's working tree"},
		Stub: []string{"the os / io/ioutil call path of packages cmd and codegen/utils (sim/simos: counted, monitored, one call per process failed / torn / crashed)", "Go map iteration order at every range-over-map site of the v2 module (sim/simrt)"}}
}

// s6root: an S6 batch against the ROOT module's generator and cleaner (overlayfiles/rootgensim, built in the root
// scratch module with the same file-system and map-order seams)
func s6root(scen, cfg string, quick, thorough int) Batch {
	b := s6b(scen, cfg, quick, thorough)
	b.Module = "root"
	b.Real = []string{"ROOT module: cmd.GenerateCode, codegen/* (type registry, code files, CleanTargetDir) — one OS process per generator run, built from /repo's working tree"}
	return b
}

func s6rootc(m string) Batch {
	b := s6root("gencompile", "m="+m, 1, 2)
	b.Workers = 1
	return b
}

// s6c: one generation of a manifest in canonical order, compiled against the runtime
func s6c(m string) Batch {
	b := s6b("gencompile", "m="+m, 1, 2)
	b.Workers = 1
	return b
}

func init() {
	reg(&PropSpec{
		ID: "C20",
		Batches: []Batch{
			s6b("genfs", "", 1000, 150000),
			s6b("genfs", "faults=1,order=1", 1600, 250000),
			s6root("genfs", "faults=1,order=1", 800, 100000),
		},
		Rule:   "each run builds a directory tree (depth <= 3, <= 3 entries per level over {generated file, manifest, user .go file, other file incl. look-alike names, empty dir, nested dir}; target present, absent or '.'), then runs 1-4 operations from {clean, generate} as separate generator processes; second batch: one file-system call of one operation fails (EACCES / ENOSPC / EIO), is torn, or the process crashes before / in / after it, and the workload continues after the 'restart'; map order inside the generator is permuted. Distinct by (target mode, manifest, operations, tree).",
		Assume: []string{"the generator never syncs, so a crash loses nothing that a completed call had written: crash = process exit at a call boundary (or inside a torn write)", "symlinks and concurrent writers to the output directory are not simulated", "sampled exploration; a clean batch is evidence, not proof"},
	})
	reg(&PropSpec{
		ID: "C12",
		Batches: []Batch{
			s6c("family"),
			s6c("small"),
			s6b("gendet", "", 600, 60000),
			s6b("genfs", "faults=1,order=1,c12=1", 800, 80000),
			s6rootc("family"),
			s6root("gendet", "", 300, 30000),
		},
		Rule:   "determinism: each run generates one of {small manifest, binding family (12 types, 10 resources incl. sub-resources, simple resource, action set, complex key, union, includes, defaults), the checked-in v2/restlidata manifest} in a fresh generator process whose range-over-map sites iterate in an order drawn from the run's seed, and compares the tree byte for byte with the canonical-order generation; the restlidata tree is also compared with the checked-in *.gr.go files (byte for byte; when the bytes differ, equivalence is judged on compiled code: exported API listing, then a differential test of JSON/ROR2 encodings, hashes, Equals and decodings over every exported type); third batch: regeneration over crashed / half-cleaned directories converges to the same tree. First two batches: the family and the small manifest are generated and compiled against the runtime (go build). Distinct by (manifest, order seed).",
		Assume: []string{"totality and compilability over the whole schema / resource grammar (and cyclic or clashing namespaces) is program enumeration and is not claimed; the family bounds what is compiled", "map ranges keyed by pointers cannot be ordered reproducibly and keep Go's own order (counted in the evidence as map-range-with-uncontrolled-key-type)", "sampled exploration"},
	})
}

// S3: no sync swap (back end B runs the real primitives), but host selection's two nondeterminism sources are pinned:
// range-over-map in package d2 iterates in canonical order, and the package-level random generator gets a seeded source
// The ZooKeeper client's own range-over-map sites (the order in which lost watches are told, which decides which
// TreeCache resyncs first) are pinned the same way, in a writable copy of the module the bubble module is pointed at
// (the go command refuses overlays below GOMODCACHE).
var seamsS3 = Seams{MapOrder: "d2", ZkMap: true, Add: "overlayfiles/d2/zz_verif_export.go=d2"}

func s3b(cfg string, quick, thorough int) Batch {
	scen := "zk"
	if strings.HasPrefix(cfg, "tap") {
		scen = "zktap"
	}
	return Batch{Pkg: "scen/s3", Scen: scen, Cfg: cfg, Seams: seamsS3, Bubble: true, NoRace: true, Quick: quick, Thorough: thorough, ThoroughSecs: 1200,
		Real: []string{"v2/d2 complete: Client.getServiceUris, TreeCache, update loops, host selection; v2/d2/lazymap; github.com/go-zookeeper/zk v1.0.3 client (connection loop, watches, reconnect, session handling)"},
		Stub: []string{"the ZooKeeper ensemble (sim/fakezk: jute wire protocol over net.Pipe)", "wall clock and timers (testing/synctest fake clock, go1.26.8)", "goroutine choice inside one stimulus' causal cone is NOT controlled (one P, no async preemption; trace determinism is measured by --selftest-determinism)"}}
}

// s3root: an S3 batch against the ROOT module's d2 (its TreeCache and client, and the older ZooKeeper client it pins)
func s3root(cfg string, quick, thorough int) Batch {
	b := s3b(cfg, quick, thorough)
	b.Module = "root"
	b.Real = []string{"ROOT module d2 complete: Client.getServiceUris, TreeCache, update loops, host selection; d2/lazymap; github.com/samuel/go-zookeeper client (connection loop, watches, reconnect, session handling)"}
	return b
}

// s3race: the same bubble scenarios built with the race detector, for C17
func s3race(cfg string, quick, thorough int) Batch {
	b := s3b(cfg, quick, thorough)
	b.NoRace = false
	return b
}

func joinNonEmpty(s ...string) string {
	var o []string
	for _, x := range s {
		if x != "" {
			o = append(o, x)
		}
	}
	return strings.Join(o, ",")
}
