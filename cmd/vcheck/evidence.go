package main

import (
	"encoding/json"
	"fmt"
	"os"
	"path/filepath"
	"sort"
	"strings"
)

type evidence struct {
	prop, tier string
	seed       uint64
	spec       *PropSpec
	runs       int
	steps      int64
	simNs      int64
	draws      int64
	faults     map[string]int
	probes     map[string]int
	known      map[string]int
	scheds     map[uint64]struct{}
	cases      map[uint64]struct{}
	samples    []string
	batches    []map[string]interface{}
	violations int
	violSample string
	deadlocks  int
	instr      map[string]interface{}
	foreign    []string
}

func newEvidence(prop, tier string, seed uint64, spec *PropSpec) *evidence {
	return &evidence{prop: prop, tier: tier, seed: seed, spec: spec, faults: map[string]int{}, probes: map[string]int{}, known: map[string]int{},
		scheds: map[uint64]struct{}{}, cases: map[uint64]struct{}{}, instr: map[string]interface{}{}}
}

// backEnd names what schedules a batch: the token kernel (A), the bubble kernel (the token kernel's API on back end
// B), a plain synctest bubble (S3), or OS processes (S6).
func backEnd(b *Batch) string {
	switch {
	case strings.Contains(b.Tags, "bkern"):
		return "B: bubble kernel"
	case b.Bubble:
		return "B: synctest bubble, runtime seam"
	case b.GenSim:
		return "generator as OS processes"
	}
	return "A: token kernel"
}

func (e *evidence) merge(b *Batch, r *Result, bb *builtBin) {
	e.runs += r.Runs
	e.steps += r.Steps
	e.simNs += r.SimTimeNs
	e.draws += r.Draws
	e.deadlocks += r.Deadlocks
	for k, v := range r.Faults {
		e.faults[k] += v
	}
	for k, v := range r.Probes {
		e.probes[k] += v
	}
	for k, v := range r.Known {
		e.known[k] += v
	}
	for _, s := range r.Scheds {
		e.scheds[s] = struct{}{}
	}
	for _, s := range r.Cases {
		e.cases[s] = struct{}{}
	}
	if len(e.samples) < 10 {
		for _, s := range r.Samples {
			if len(e.samples) < 10 {
				e.samples = append(e.samples, fmt.Sprintf("[%s %s] %s", b.Scen, b.Cfg, s))
			}
		}
	}
	found := false
	for _, m := range e.batches {
		if m["scenario"] == b.Scen && m["cfg"] == b.Cfg && m["pkg"] == b.Pkg && m["module"] == modName(b) && m["back_end"] == backEnd(b) {
			m["runs"] = m["runs"].(int) + r.Runs
			m["steps"] = m["steps"].(int64) + r.Steps
			if r.WallS > m["max_worker_wall_s"].(float64) {
				m["max_worker_wall_s"] = r.WallS
			}
			found = true
		}
	}
	if !found {
		e.batches = append(e.batches, map[string]interface{}{"scenario": b.Scen, "cfg": b.Cfg, "pkg": b.Pkg, "module": modName(b), "back_end": backEnd(b), "runs": r.Runs, "steps": r.Steps,
			"max_worker_wall_s": r.WallS, "real_components": b.Real, "stub_components": b.Stub, "race_detector": !b.NoRace, "instrumentation": bb.stats})
	}
}

func modName(b *Batch) string {
	if b.Module == "root" {
		return "root"
	}
	return "v2"
}

func (e *evidence) write(wall float64) {
	dir := filepath.Join(verifDir, "evidence")
	if os.Getenv("VERIF_REPO") != "" && os.Getenv("VERIF_REPO") != "/repo" {
		// an experiment against a copy of the repository (a seeded change, a sweep): the evidence of record, which
		// describes /repo itself, is left alone
		dir = filepath.Join(os.TempDir(), "verif-evidence-of-experiments")
	}
	os.MkdirAll(dir, 0755)
	samples := []interface{}{}
	for _, s := range e.samples {
		samples = append(samples, s)
	}
	if len(samples) == 0 {
		samples = append(samples, "no run completed")
	}
	rph := 0.0
	if wall > 0 {
		rph = float64(e.runs) / wall * 3600
	}
	var real, stub []string
	seen := map[string]bool{}
	for _, b := range e.spec.Batches {
		for _, r := range b.Real {
			if !seen["r"+r] {
				real = append(real, r)
				seen["r"+r] = true
			}
		}
		for _, r := range b.Stub {
			if !seen["s"+r] {
				stub = append(stub, r)
				seen["s"+r] = true
			}
		}
	}
	zeroProbes := []string{}
	for k, v := range e.probes {
		if v == 0 {
			zeroProbes = append(zeroProbes, k)
		}
	}
	sort.Strings(zeroProbes)
	cov := map[string]interface{}{
		"evaluations":                  e.runs,
		"distinct_nontrivial":          len(e.cases),
		"rule":                         e.spec.Rule,
		"samples":                      samples,
		"simulated_runs":               e.runs,
		"runs_per_hour":                int64(rph),
		"seeds":                        fmt.Sprintf("VERIF_SEED=%d; per-run seed = mix(VERIF_SEED, run index), run indices 0..n-1 per batch", e.seed),
		"kernel_steps":                 e.steps,
		"simulated_time":               fmt.Sprintf("%d scheduling steps (back end A has no clock); %.3f virtual seconds (back end B)", e.steps, float64(e.simNs)/1e9),
		"choice_draws":                 e.draws,
		"distinct_schedules":           len(e.scheds),
		"distinct_schedules_measure":   "distinct 64-bit hashes of the executed (task id, yield point) sequence of a run",
		"fault_kinds_fired":            e.faults,
		"rare_condition_probes":        e.probes,
		"deadlocks_seen":               e.deadlocks,
		"batches":                      e.batches,
		"components_real":              real,
		"components_stub":              stub,
		"known_findings_hit":           e.known,
		"foreign_violations_not_owned": e.foreign,
	}
	if e.violSample != "" {
		cov["violation"] = e.violSample
	}
	doc := map[string]interface{}{
		"property_id": e.prop,
		"tier":        e.tier,
		"seed":        int64(e.seed),
		"level":       "exploration",
		"coverage":    cov,
		"assumptions": e.spec.Assume,
		"wall_s":      wall,
		"violations":  e.violations,
	}
	data, _ := json.MarshalIndent(doc, "", " ")
	os.WriteFile(filepath.Join(dir, e.prop+".json"), data, 0644)
}
