// Command gensim is the code generator as a simulated process: go-restli's
// cmd.GenerateCode / utils.CleanTargetDir from /repo's current tree, built with the
// overlay that routes its file-system calls through sim/simos and its
// range-over-map sites through sim/simrt. One invocation = one generator process.
//
//	gensim gen <manifest.json> <outdir> [dependency manifests...]
//	gensim clean <dir>
//
// Environment: GENSIM_ORDER_SEED (0 = canonical map order), GENSIM_FAIL_AT,
// GENSIM_FAIL_KIND, GENSIM_LOG (see sim/simos).
package main

import (
	"fmt"
	"io"
	"log"
	"os"
	"strconv"

	"github.com/PapaCharlie/go-restli/v2/cmd"
	"github.com/PapaCharlie/go-restli/v2/codegen/utils"

	"verif/sim/kern"
	"verif/sim/simrt"
)

func main() {
	log.SetOutput(io.Discard)
	if len(os.Args) < 3 {
		fmt.Fprintln(os.Stderr, "usage: gensim gen <manifest> <outdir> [deps...] | gensim clean <dir>")
		os.Exit(2)
	}
	if s, _ := strconv.ParseUint(os.Getenv("GENSIM_ORDER_SEED"), 10, 64); s != 0 {
		c := kern.NewChoices(s)
		simrt.Order = c.Choose
	}
	if d := os.Getenv("GENSIM_CWD"); d != "" {
		if err := os.Chdir(d); err != nil {
			fmt.Fprintln(os.Stderr, err)
			os.Exit(2)
		}
	}
	var err error
	switch os.Args[1] {
	case "clean":
		err = utils.CleanTargetDir(os.Args[2])
	case "gen":
		var ms []*cmd.GoRestliManifest
		for _, p := range os.Args[4:] {
			ms = append(ms, read(p))
		}
		ms = append(ms, read(os.Args[2]))
		err = cmd.GenerateCode(os.Args[3], ms, false)
	default:
		os.Exit(2)
	}
	if f := os.Getenv("GENSIM_STATS"); f != "" {
		os.WriteFile(f, []byte(fmt.Sprintf("%d %d %d\n", simrt.Sites, simrt.Permuted, simrt.Unordered)), 0644)
	}
	if err != nil {
		fmt.Fprintln(os.Stderr, "gensim:", err)
		os.Exit(1)
	}
}

func read(p string) *cmd.GoRestliManifest {
	data, err := os.ReadFile(p)
	if err != nil {
		fmt.Fprintln(os.Stderr, err)
		os.Exit(2)
	}
	m, err := cmd.ReadManifest(data)
	if err != nil {
		fmt.Fprintln(os.Stderr, "gensim: manifest:", err)
		os.Exit(2)
	}
	return m
}
