// Command gendriver runs go-restli's generator (cmd.ReadManifest + cmd.GenerateCode
// from /repo's current tree; the Java spec parser is not involved) on a hand-written
// manifest.  usage: gendriver <manifest.json> <outdir> [dep-manifest.json ...]
package main

import (
	"log"
	"os"

	"github.com/PapaCharlie/go-restli/v2/cmd"
)

func main() {
	if len(os.Args) < 3 {
		log.Fatal("usage: gendriver <manifest.json> <outdir> [dependency manifests...]")
	}
	var ms []*cmd.GoRestliManifest
	for _, p := range os.Args[3:] {
		ms = append(ms, read(p))
	}
	ms = append(ms, read(os.Args[1]))
	if err := cmd.GenerateCode(os.Args[2], ms, false); err != nil {
		log.Fatalf("gendriver: generation failed: %v", err)
	}
}

func read(p string) *cmd.GoRestliManifest {
	data, err := os.ReadFile(p)
	if err != nil {
		log.Fatal(err)
	}
	m, err := cmd.ReadManifest(data)
	if err != nil {
		log.Fatalf("gendriver: %s: %v", p, err)
	}
	return m
}
