// Command instrument derives the simulator's seams from the CURRENT source tree and
// writes them as a `go build -overlay` file; nothing in /repo is modified.
//
//	instrument -dir /repo/v2 -out <scratch>/ov -overlay <scratch>/overlay.json \
//	    [-sync pkgsuffix,...] [-maporder pkgsuffix,...|all] [-os pkgsuffix,...] \
//	    [-add srcdir=pkgdir,...] [-merge existing-overlay.json]
//
// Rewrites (type-directed; anything not recognised is left untouched and counted):
//   - sync:     import "sync" -> "verif/sim/simsync" (local name stays sync)
//   - maporder: `for k, v := range m` with m of map type iterates simrt.Entries(m),
//     i.e. in an order chosen by the simulator
//   - os:       destructive os./ioutil. calls -> simos.
//   - add:      copies extra files (in-package export files) into a package directory
package main

import (
	"bytes"
	"encoding/json"
	"flag"
	"fmt"
	"go/ast"
	"go/parser"
	"go/printer"
	"go/token"
	"go/types"
	"os"
	"path/filepath"
	"sort"
	"strconv"
	"strings"

	"golang.org/x/tools/go/ast/astutil"
	"golang.org/x/tools/go/packages"
)

// perLoopVars: the module's language version is below 1.22, so `for k, v := range`
// declares ONE k and ONE v per loop, not per iteration; the rewrite must keep that
// (code that takes the address of, or captures, a range variable depends on it).
var perLoopVars bool

type stats struct {
	SyncFiles       []string `json:"sync_files"`
	MapRangeSites   int      `json:"map_range_sites"`
	MapRangeFiles   []string `json:"map_range_files"`
	MapRangeSkip    []string `json:"map_range_uninstrumented"`
	PerIterFallback []string `json:"map_range_sites_with_per_iteration_variables_instead_of_per_loop"`
	PerLoopVars     bool     `json:"per_loop_range_variables_preserved"`
	OsCalls         int      `json:"os_calls"`
	OsFiles         []string `json:"os_files"`
	Added           []string `json:"added_files"`
	GoStmts         []string `json:"go_statements_seen"`
	PackagesLoaded  int      `json:"packages_loaded"`
}

var osNames = map[string]bool{
	"Remove": true, "RemoveAll": true, "Rename": true, "WriteFile": true, "Create": true, "OpenFile": true,
	"Mkdir": true, "MkdirAll": true, "Chmod": true, "Truncate": true, "Symlink": true, "Link": true,
	"CreateTemp": true, "ReadDir": true, "Stat": true, "Lstat": true, "ReadFile": true, "Open": true,
	"TempFile": true, "TempDir": true, "MkdirTemp": true,
}

func match(pkgPath string, list []string) bool {
	for _, s := range list {
		if s == "all" || pkgPath == s || strings.HasSuffix(pkgPath, "/"+s) {
			return true
		}
	}
	return false
}

func split(s string) []string {
	if s == "" {
		return nil
	}
	return strings.Split(s, ",")
}

func main() {
	dir := flag.String("dir", "", "module directory to load")
	out := flag.String("out", "", "directory for rewritten files")
	ovPath := flag.String("overlay", "", "overlay.json to write")
	syncPk := flag.String("sync", "", "")
	mapPk := flag.String("maporder", "", "")
	osPk := flag.String("os", "", "")
	add := flag.String("add", "", "srcfile=pkgdir,...")
	merge := flag.String("merge", "", "")
	patterns := flag.String("patterns", "./...", "")
	statsPath := flag.String("stats", "", "")
	flag.Parse()

	syncL, mapL, osL := split(*syncPk), split(*mapPk), split(*osPk)
	overlay := map[string]string{}
	if *merge != "" {
		var ex struct{ Replace map[string]string }
		if data, err := os.ReadFile(*merge); err == nil {
			if json.Unmarshal(data, &ex) == nil {
				for k, v := range ex.Replace {
					overlay[k] = v
				}
			}
		}
	}
	if err := os.MkdirAll(*out, 0755); err != nil {
		fatal(err)
	}
	st := &stats{}
	perLoopVars = moduleGoBelow122(*dir)
	st.PerLoopVars = perLoopVars

	cfg := &packages.Config{
		Mode: packages.NeedName | packages.NeedFiles | packages.NeedCompiledGoFiles | packages.NeedSyntax | packages.NeedTypes | packages.NeedTypesInfo | packages.NeedImports | packages.NeedDeps,
		Dir:  *dir,
	}
	pkgs, err := packages.Load(cfg, strings.Split(*patterns, ",")...)
	if err != nil {
		fatal(err)
	}
	st.PackagesLoaded = len(pkgs)
	n := 0
	for _, p := range pkgs {
		if len(p.Errors) > 0 {
			for _, e := range p.Errors {
				fmt.Fprintln(os.Stderr, "instrument: load error:", e)
			}
			fatal(fmt.Errorf("package %s does not type-check", p.PkgPath))
		}
		doSync, doMap, doOs := match(p.PkgPath, syncL), match(p.PkgPath, mapL), match(p.PkgPath, osL)
		for i, f := range p.Syntax {
			fname := p.CompiledGoFiles[i]
			if strings.HasSuffix(fname, "_test.go") {
				continue
			}
			changed := false
			ast.Inspect(f, func(nd ast.Node) bool {
				if g, ok := nd.(*ast.GoStmt); ok {
					st.GoStmts = append(st.GoStmts, p.Fset.Position(g.Pos()).String())
				}
				return true
			})
			if doSync {
				for _, imp := range f.Imports {
					if imp.Path.Value == `"sync"` {
						imp.Path.Value = `"verif/sim/simsync"`
						imp.Name = ast.NewIdent("sync")
						changed = true
						st.SyncFiles = append(st.SyncFiles, fname)
					}
				}
			}
			if doMap {
				k := rewriteRanges(p, f, st)
				if k > 0 {
					addImport(f, "verif/sim/simrt", "simrt")
					changed = true
					st.MapRangeSites += k
					st.MapRangeFiles = append(st.MapRangeFiles, fname)
				}
			}
			if doOs {
				k := rewriteOs(p, f)
				if k > 0 {
					addImport(f, "verif/sim/simos", "simos")
					changed = true
					st.OsCalls += k
					st.OsFiles = append(st.OsFiles, fname)
				}
			}
			if !changed {
				continue
			}
			fixUnusedImports(p, f)
			var buf bytes.Buffer
			if err := (&printer.Config{Mode: printer.UseSpaces | printer.TabIndent, Tabwidth: 8}).Fprint(&buf, p.Fset, f); err != nil {
				fatal(err)
			}
			n++
			dst := filepath.Join(*out, fmt.Sprintf("f%03d_%s", n, filepath.Base(fname)))
			if err := os.WriteFile(dst, buf.Bytes(), 0644); err != nil {
				fatal(err)
			}
			overlay[fname] = dst
		}
	}
	for _, a := range split(*add) {
		i := strings.IndexByte(a, '=')
		if i < 0 {
			fatal(fmt.Errorf("bad -add %q", a))
		}
		src, pkgdir := a[:i], a[i+1:]
		target := filepath.Join(pkgdir, filepath.Base(src))
		abs, _ := filepath.Abs(src)
		overlay[target] = abs
		st.Added = append(st.Added, target)
	}
	data, _ := json.MarshalIndent(map[string]interface{}{"Replace": overlay}, "", " ")
	if err := os.WriteFile(*ovPath, data, 0644); err != nil {
		fatal(err)
	}
	sort.Strings(st.MapRangeSkip)
	if *statsPath != "" {
		sd, _ := json.MarshalIndent(st, "", " ")
		os.WriteFile(*statsPath, sd, 0644)
	}
	fmt.Printf("instrument: %d files rewritten (sync %d, map-range sites %d, os calls %d), %d added, %d uninstrumented map ranges\n",
		n, len(st.SyncFiles), st.MapRangeSites, st.OsCalls, len(st.Added), len(st.MapRangeSkip))
}

func fatal(err error) {
	fmt.Fprintln(os.Stderr, "instrument:", err)
	os.Exit(2)
}

func addImport(f *ast.File, path, name string) {
	q := strconv.Quote(path)
	for _, imp := range f.Imports {
		if imp.Path.Value == q {
			return
		}
	}
	spec := &ast.ImportSpec{Name: ast.NewIdent(name), Path: &ast.BasicLit{Kind: token.STRING, Value: q}}
	f.Imports = append(f.Imports, spec)
	for _, d := range f.Decls {
		if gd, ok := d.(*ast.GenDecl); ok && gd.Tok == token.IMPORT {
			gd.Specs = append(gd.Specs, spec)
			if !gd.Lparen.IsValid() {
				gd.Lparen = gd.Pos()
				gd.Rparen = gd.End()
			}
			return
		}
	}
	gd := &ast.GenDecl{Tok: token.IMPORT, Specs: []ast.Spec{spec}}
	f.Decls = append([]ast.Decl{gd}, f.Decls...)
}

// fixUnusedImports drops "os"/"io/ioutil" imports that the os rewrite left unused.
func fixUnusedImports(p *packages.Package, f *ast.File) {
	used := map[string]bool{}
	ast.Inspect(f, func(nd ast.Node) bool {
		if se, ok := nd.(*ast.SelectorExpr); ok {
			if id, ok := se.X.(*ast.Ident); ok {
				used[id.Name] = true
			}
		}
		return true
	})
	for _, d := range f.Decls {
		gd, ok := d.(*ast.GenDecl)
		if !ok || gd.Tok != token.IMPORT {
			continue
		}
		var keep []ast.Spec
		for _, s := range gd.Specs {
			is := s.(*ast.ImportSpec)
			path, _ := strconv.Unquote(is.Path.Value)
			if path != "os" && path != "io/ioutil" {
				keep = append(keep, s)
				continue
			}
			name := filepath.Base(path)
			if is.Name != nil {
				name = is.Name.Name
			}
			if used[name] || name == "_" || name == "." {
				keep = append(keep, s)
			}
		}
		gd.Specs = keep
	}
	var imps []*ast.ImportSpec
	var decls []ast.Decl
	for _, d := range f.Decls {
		if gd, ok := d.(*ast.GenDecl); ok && gd.Tok == token.IMPORT {
			if len(gd.Specs) == 0 {
				continue
			}
			for _, s := range gd.Specs {
				imps = append(imps, s.(*ast.ImportSpec))
			}
		}
		decls = append(decls, d)
	}
	f.Decls = decls
	f.Imports = imps
}

func rewriteOs(p *packages.Package, f *ast.File) int {
	n := 0
	ast.Inspect(f, func(nd ast.Node) bool {
		se, ok := nd.(*ast.SelectorExpr)
		if !ok {
			return true
		}
		id, ok := se.X.(*ast.Ident)
		if !ok {
			return true
		}
		pn, ok := p.TypesInfo.Uses[id].(*types.PkgName)
		if !ok {
			return true
		}
		path := pn.Imported().Path()
		if (path == "os" || path == "io/ioutil") && osNames[se.Sel.Name] {
			if _, isFunc := p.TypesInfo.Uses[se.Sel].(*types.Func); isFunc {
				if path == "io/ioutil" {
					se.Sel = ast.NewIdent("Ioutil" + se.Sel.Name)
				}
				se.X = ast.NewIdent("simos")
				n++
			}
		}
		return true
	})
	return n
}

var tmpN int

func rewriteRanges(p *packages.Package, f *ast.File, st *stats) int {
	n := 0
	astutil.Apply(f, nil, func(cur *astutil.Cursor) bool {
		r, ok := cur.Node().(*ast.RangeStmt)
		if !ok {
			return true
		}
		t := p.TypesInfo.TypeOf(r.X)
		if t == nil {
			return true
		}
		var mt *types.Map
		if m, ok := t.Underlying().(*types.Map); ok {
			mt = m
		} else if tp, ok := t.(*types.TypeParam); ok {
			mt = coreMap(tp)
		}
		if mt == nil {
			return true
		}
		tmpN++
		ev := ast.NewIdent(fmt.Sprintf("__ve%d", tmpN))
		okv := ast.NewIdent(fmt.Sprintf("__ok%d", tmpN))
		vv := ast.NewIdent(fmt.Sprintf("__vv%d", tmpN))
		call := &ast.CallExpr{Fun: &ast.SelectorExpr{X: ast.NewIdent("simrt"), Sel: ast.NewIdent("Entries")}, Args: []ast.Expr{r.X}}
		var pre []ast.Stmt
		// __vv, __ok := __ve.Get(); if !__ok { continue }
		pre = append(pre,
			&ast.AssignStmt{Lhs: []ast.Expr{vv, okv}, Tok: token.DEFINE, Rhs: []ast.Expr{&ast.CallExpr{Fun: &ast.SelectorExpr{X: ev, Sel: ast.NewIdent("Get")}}}},
			&ast.IfStmt{Cond: &ast.UnaryExpr{Op: token.NOT, X: okv}, Body: &ast.BlockStmt{List: []ast.Stmt{&ast.BranchStmt{Tok: token.CONTINUE}}}},
			&ast.AssignStmt{Lhs: []ast.Expr{ast.NewIdent("_")}, Tok: token.ASSIGN, Rhs: []ast.Expr{vv}},
		)
		tok := r.Tok
		isBlank := func(e ast.Expr) bool {
			if e == nil {
				return true
			}
			id, ok := e.(*ast.Ident)
			return ok && id.Name == "_"
		}
		var lhs, rhs []ast.Expr
		var lhsTypes []types.Type
		if !isBlank(r.Key) {
			lhs = append(lhs, r.Key)
			rhs = append(rhs, &ast.SelectorExpr{X: ev, Sel: ast.NewIdent("K")})
			lhsTypes = append(lhsTypes, mt.Key())
		}
		if !isBlank(r.Value) {
			lhs = append(lhs, r.Value)
			rhs = append(rhs, vv)
			lhsTypes = append(lhsTypes, mt.Elem())
		}
		// per-loop variables (language < 1.22): hoist `var k K; var v V` in front of the loop
		var hoist []ast.Stmt
		if tok == token.DEFINE && len(lhs) > 0 && perLoopVars {
			_, labelled := cur.Parent().(*ast.LabeledStmt)
			okTypes := !labelled
			var decls []ast.Stmt
			for i, l := range lhs {
				ts, ok := typeExpr(p, f, lhsTypes[i])
				if !ok {
					okTypes = false
					break
				}
				decls = append(decls, &ast.DeclStmt{Decl: &ast.GenDecl{Tok: token.VAR, Specs: []ast.Spec{
					&ast.ValueSpec{Names: []*ast.Ident{ast.NewIdent(l.(*ast.Ident).Name)}, Type: ts}}}})
			}
			if okTypes {
				hoist = decls
				tok = token.ASSIGN
			} else {
				st.PerIterFallback = append(st.PerIterFallback, p.Fset.Position(r.Pos()).String())
			}
		}
		if len(lhs) > 0 {
			pre = append(pre, &ast.AssignStmt{Lhs: lhs, Tok: tok, Rhs: rhs})
			if r.Tok == token.DEFINE {
				// keep "declared and not used" away if the body ignores one of them
				var blanks, vals []ast.Expr
				for _, l := range lhs {
					blanks = append(blanks, ast.NewIdent("_"))
					vals = append(vals, ast.NewIdent(l.(*ast.Ident).Name))
				}
				pre = append(pre, &ast.AssignStmt{Lhs: blanks, Tok: token.ASSIGN, Rhs: vals})
			}
		}
		// a plain `continue` in the body still targets this loop
		r.Key = ast.NewIdent("_")
		r.Value = ev
		r.Tok = token.DEFINE
		r.X = call
		r.Body.List = append(pre, r.Body.List...)
		if hoist != nil {
			cur.Replace(&ast.BlockStmt{List: append(hoist, r)})
		}
		n++
		return true
	})
	return n
}

// typeExpr renders a type as an expression valid inside file f (nil,false if some
// package it mentions is not imported there or a name is not accessible).
func typeExpr(p *packages.Package, f *ast.File, t types.Type) (ast.Expr, bool) {
	ok := true
	q := func(other *types.Package) string {
		if other == p.Types {
			return ""
		}
		for _, imp := range f.Imports {
			path, _ := strconv.Unquote(imp.Path.Value)
			if path == other.Path() {
				if imp.Name != nil {
					if imp.Name.Name == "_" || imp.Name.Name == "." {
						ok = false
					}
					return imp.Name.Name
				}
				return other.Name()
			}
		}
		ok = false
		return other.Name()
	}
	s := types.TypeString(t, q)
	if !ok {
		return nil, false
	}
	e, err := parser.ParseExpr(s)
	if err != nil {
		return nil, false
	}
	// unexported names of other packages cannot be written down
	bad := false
	ast.Inspect(e, func(n ast.Node) bool {
		if se, ok := n.(*ast.SelectorExpr); ok && !ast.IsExported(se.Sel.Name) {
			bad = true
		}
		return true
	})
	if bad {
		return nil, false
	}
	stripPos(e)
	return e, true
}

func stripPos(e ast.Expr) {
	ast.Inspect(e, func(n ast.Node) bool {
		switch x := n.(type) {
		case *ast.Ident:
			x.NamePos = token.NoPos
		case *ast.StarExpr:
			x.Star = token.NoPos
		case *ast.ArrayType:
			x.Lbrack = token.NoPos
		case *ast.MapType:
			x.Map = token.NoPos
		case *ast.InterfaceType:
			x.Interface = token.NoPos
		case *ast.StructType:
			x.Struct = token.NoPos
		case *ast.FuncType:
			x.Func = token.NoPos
		case *ast.ChanType:
			x.Begin, x.Arrow = token.NoPos, token.NoPos
		}
		return true
	})
}

func moduleGoBelow122(dir string) bool {
	data, err := os.ReadFile(filepath.Join(dir, "go.mod"))
	if err != nil {
		return false
	}
	for _, line := range strings.Split(string(data), "\n") {
		fs := strings.Fields(line)
		if len(fs) == 2 && fs[0] == "go" {
			parts := strings.Split(fs[1], ".")
			if len(parts) >= 2 {
				maj, _ := strconv.Atoi(parts[0])
				min, _ := strconv.Atoi(parts[1])
				return maj == 1 && min < 22
			}
		}
	}
	return true // no go directive: language 1.16 semantics
}

func coreMap(tp *types.TypeParam) *types.Map {
	iface, ok := tp.Constraint().Underlying().(*types.Interface)
	if !ok {
		return nil
	}
	var found *types.Map
	for i := 0; i < iface.NumEmbeddeds(); i++ {
		et := iface.EmbeddedType(i)
		switch u := et.(type) {
		case *types.Union:
			for j := 0; j < u.Len(); j++ {
				m, ok := u.Term(j).Type().Underlying().(*types.Map)
				if !ok {
					return nil
				}
				if found != nil && !types.Identical(found, m) {
					return nil
				}
				found = m
			}
		default:
			if m, ok := et.Underlying().(*types.Map); ok {
				found = m
			}
		}
	}
	return found
}
