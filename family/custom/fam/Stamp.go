package fam

import (
	"fmt"
	"strconv"
	"strings"

	"github.com/PapaCharlie/go-restli/v2/fnv1a"
)

// Stamp travels as a string "<len(zone)>:<zone><text>" (injective); a second custom typeref in the same package, so that
// the generated init_custom_typerefs file has more than one registration to order.
type Stamp struct {
	Zone string
	Text string
}

func (Stamp) IsCustomTyperef() {}

func MarshalStamp(in Stamp) (out string, err error) {
	return strconv.Itoa(len(in.Zone)) + ":" + in.Zone + in.Text, nil
}

func UnmarshalStamp(in string) (out Stamp, err error) {
	n, rest, ok := strings.Cut(in, ":")
	k, convErr := strconv.Atoi(n)
	if !ok || convErr != nil || k < 0 || k > len(rest) {
		return out, fmt.Errorf("malformed stamp %q", in)
	}
	return Stamp{Zone: rest[:k], Text: rest[k:]}, nil
}

func ComputeHashStamp(in Stamp) fnv1a.Hash {
	h := fnv1a.NewHash()
	h.AddString(in.Zone)
	h.AddString(in.Text)
	return h
}

func EqualsStamp(left, right Stamp) bool { return left == right }
