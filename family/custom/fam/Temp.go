// Hand-written custom typeref of the simulator's binding family (the kind of file the
// generator must locate, use and never touch). Placed beside the generated code before
// generation.
package fam

import (
	"github.com/PapaCharlie/go-restli/v2/fnv1a"
)

// Temp travels as an int32 of milli-degrees.
type Temp struct {
	Milli int32
}

// IsCustomTyperef marks the type for the reflective driver (it is usable as an entity key).
func (Temp) IsCustomTyperef() {}

func MarshalTemp(in Temp) (out int32, err error) { return in.Milli, nil }

func UnmarshalTemp(in int32) (out Temp, err error) { return Temp{Milli: in}, nil }

func ComputeHashTemp(in Temp) fnv1a.Hash { return fnv1a.HashInt32(in.Milli) }

func EqualsTemp(left, right Temp) bool { return left == right }
