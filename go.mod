module verif

go 1.22.0

toolchain go1.23.5

require (
	github.com/PapaCharlie/go-restli/v2 v2.0.0
	github.com/anishathalye/porcupine v1.3.0
)

replace github.com/PapaCharlie/go-restli/v2 => /repo/v2

require golang.org/x/tools v0.29.0

require (
	github.com/dave/jennifer v1.7.0 // indirect
	github.com/josharian/intern v1.0.0 // indirect
	github.com/mailru/easyjson v0.7.7 // indirect
	github.com/pkg/errors v0.9.1 // indirect
	github.com/spf13/cobra v1.6.0 // indirect
	github.com/spf13/pflag v1.0.5 // indirect
	golang.org/x/mod v0.22.0 // indirect
	golang.org/x/sync v0.10.0 // indirect
)
