module verif

go 1.22.0

toolchain go1.23.5

require (
	github.com/PapaCharlie/go-restli/v2 v2.0.0
	github.com/anishathalye/porcupine v1.3.0
)

replace github.com/PapaCharlie/go-restli/v2 => /repo/v2

require golang.org/x/tools v0.29.0

require (
	golang.org/x/mod v0.22.0 // indirect
	golang.org/x/sync v0.10.0 // indirect
)
