package restlicodec

import sync "verif/sim/simsync"

// Added to the package by build overlay only (never present in /repo): lets the
// simulator start every run from an empty custom-typeref registry.
func VerifResetCustomTyperefs() { customTyperefAdapters = sync.Map{} }
