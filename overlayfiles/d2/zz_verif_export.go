package d2

import (
	"math/rand"
	"net/url"
)

// Added to package d2 by build overlay only (never present in /repo). Gives the
// simulator the same in-package access the repository's own tests use: the update
// loops on a caller-supplied channel, pre-seeded client state without a ZooKeeper
// connection, the current snapshots, and the random source.

// VerifSetRngSource replaces the source behind the package-level generator.
func VerifSetRngSource(src rand.Source) { rng = rand.New(src) }

func (c *Client) VerifUriLoop(cluster string, ch chan TreeCacheEvent) {
	c.waitForUriUpdates(cluster, ch)
}

func (c *Client) VerifServiceLoop(service string, ch chan TreeCacheEvent) {
	c.waitForServiceUpdates(service, ch)
}

func (c *Client) VerifSeedUris(cluster string) {
	c.uris.LoadOrStore(cluster, func() interface{} {
		return &serviceUris{zkPath: UrisPath(cluster)}
	})
}

// VerifCurrent returns the current service definition and URI snapshot (identity of
// the snapshot object plus its live map).
func (c *Client) VerifCurrent(service, cluster string) (*Service, interface{}, map[string]*Uri) {
	var svc *Service
	if s, ok := c.services.Load(service); ok {
		svc, _ = s.(*Service)
	}
	u, ok := c.uris.Load(cluster)
	if !ok {
		return svc, nil, nil
	}
	su, _ := u.(*serviceUris)
	if su == nil {
		return svc, nil, nil
	}
	return svc, su, su.uris
}

// VerifChooseHost runs host selection on a snapshot built from the given map.
func VerifChooseHost(zkPath string, uris map[string]*Uri, schemes []string) *url.URL {
	return (&serviceUris{zkPath: zkPath, uris: uris}).chooseHost(schemes)
}
