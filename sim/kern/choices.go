package kern

// Choices is the single source of every decision in a run: scheduling, delays,
// faults, generated operations and arguments, mock replies, map-iteration
// permutations, random-source values. In search mode values come from a
// self-contained PRNG (splitmix64-seeded xoshiro256**), in replay mode from a
// recorded list (exhausted or out-of-range entries read as 0 = "the simplest thing").
type Choices struct {
	s        [4]uint64
	replay   bool
	list     []uint32
	pos      int
	Log      []uint32 // values drawn, in order (the replay file's choice list)
	Tags     []string // tag of each draw (only when KeepTags)
	Ns       []uint32
	KeepTags bool
	Limit    int // hard cap on draws per run (runaway guard); 0 = none
	Over     bool
}

func splitmix(x *uint64) uint64 {
	*x += 0x9e3779b97f4a7c15
	z := *x
	z = (z ^ (z >> 30)) * 0xbf58476d1ce4e5b9
	z = (z ^ (z >> 27)) * 0x94d049bb133111eb
	return z ^ (z >> 31)
}

// NewChoices returns a search-mode stream for one run.
func NewChoices(seed uint64) *Choices {
	c := &Choices{}
	x := seed
	for i := range c.s {
		c.s[i] = splitmix(&x)
	}
	c.Log = make([]uint32, 0, 256)
	return c
}

// ReplayChoices returns a stream that replays list.
func ReplayChoices(list []uint32) *Choices {
	return &Choices{replay: true, list: list, Log: make([]uint32, 0, len(list)+16)}
}

// Mix derives the per-run seed from (VERIF_SEED, run index).
func Mix(seed uint64, run uint64) uint64 {
	x := seed*0x9e3779b97f4a7c15 ^ (run+1)*0xbf58476d1ce4e5b9
	return splitmix(&x)
}

func rotl(x uint64, k uint) uint64 { return (x << k) | (x >> (64 - k)) }

//go:norace
func (c *Choices) next() uint64 {
	s := &c.s
	r := rotl(s[1]*5, 7) * 9
	t := s[1] << 17
	s[2] ^= s[0]
	s[3] ^= s[1]
	s[1] ^= s[2]
	s[0] ^= s[3]
	s[2] ^= t
	s[3] = rotl(s[3], 45)
	return r
}

// Choose returns a value in [0,n). n<=1 returns 0 without consuming a draw.
//
//go:norace
func (c *Choices) Choose(n int, tag string) int {
	if n <= 1 {
		return 0
	}
	if c.Limit > 0 && len(c.Log) >= c.Limit {
		c.Over = true
		return 0
	}
	var v uint32
	if c.replay {
		if c.pos < len(c.list) {
			v = c.list[c.pos]
			c.pos++
			if int(v) >= n {
				v = 0
			}
		}
	} else {
		v = uint32(c.next() % uint64(n))
	}
	c.Log = append(c.Log, v)
	if c.KeepTags {
		c.Tags = append(c.Tags, tag)
		c.Ns = append(c.Ns, uint32(n))
	}
	return int(v)
}

// Weighted chooses index i with probability w[i]/sum(w); index 0 should be the
// "simplest" alternative because replayed zeros select it.
//
//go:norace
func (c *Choices) Weighted(tag string, w ...int) int {
	tot := 0
	for _, x := range w {
		tot += x
	}
	v := c.Choose(tot, tag)
	for i, x := range w {
		if v < x {
			return i
		}
		v -= x
	}
	return 0
}
