//go:build !bkern

// Package kern is the simulation kernel, back end A ("token").
//
// Simulated tasks are real goroutines, but exactly one holds the token at any time.
// A task parks at every yield point until the kernel, having drawn the next choice
// from the choice stream, releases it. Parking uses raw read(2)/write(2) on per-task
// OS pipes through syscall.Syscall so that the race detector sees none of the
// kernel's hand-offs as happens-before edges: under -race, ThreadSanitizer observes
// exactly the synchronisation the program under test performs itself, although the
// schedule is serial and fully controlled. Kernel bookkeeping that tasks touch lives
// in //go:norace functions over plain memory.
package kern

import (
	"fmt"
	"os"
	"runtime"
	"runtime/debug"
	"sync/atomic"
	"syscall"
	"testing"
	"time"
	"unsafe"
)

const (
	stParked  = iota // enabled: waiting for the token
	stBlocked        // waiting for an object to be woken
	stDone
	stIdle // spawned, never started (pool task without work)
)

// Abort is the panic value used to unwind tasks when a run is torn down.
type abortT struct{}

var abortSentinel = &abortT{}

// IsAbort reports whether a recovered value is the kernel's teardown sentinel.
func IsAbort(v interface{}) bool { return v == interface{}(abortSentinel) }

type Task struct {
	ID        int
	Name      string
	wake      [2]int
	state     int
	blocked   uintptr
	point     string
	fn        func()
	done      chan struct{} // real HB edge task -> kernel, used only at the very end
	unwinding bool
	Panic     interface{} // non-sentinel panic that escaped fn
	PanicStk  string
	prio      int
	steps     int
}

// Event is one entry of the trace (recorded only when Sim.TraceOn).
type Event struct {
	Seq    int64  `json:"seq"`
	Task   int    `json:"task"`
	Kind   string `json:"kind"`
	Point  string `json:"point,omitempty"`
	Detail string `json:"detail,omitempty"`
}

type Sim struct {
	C        *Choices
	tasks    []*Task
	back     [2]int
	closed   bool
	ran      bool
	cur      *Task
	last     *Task
	seq      int64
	aborting bool
	TraceOn  bool
	Trace    []Event
	Steps    int
	Dead     bool   // deadlock: nobody enabled, somebody unfinished
	DeadInfo string // who was blocked where
	Budget   bool   // step budget exhausted
	schedH   uint64 // rolling hash over (task, point) of every step
	strategy int
	pctAt    []int
	stepHook func() // kernel-side invariant evaluated after every step
	hung     int32
}

// S is the simulation currently running in this process (nil between runs).
var S *Sim

// T is the test the current run belongs to (only back end B needs it).
var T *testing.T

func pipe() [2]int {
	var p [2]int
	if err := syscall.Pipe(p[:]); err != nil {
		panic(err)
	}
	return p
}

//go:norace
func rd(fd int) {
	var b [1]byte
	for {
		n, _, e := syscall.Syscall(syscall.SYS_READ, uintptr(fd), uintptr(unsafe.Pointer(&b[0])), 1)
		if e == syscall.EINTR {
			continue
		}
		if n != 1 || e != 0 {
			panic("kern: rd failed")
		}
		return
	}
}

//go:norace
func wr(fd int) {
	b := [1]byte{1}
	for {
		_, _, e := syscall.Syscall(syscall.SYS_WRITE, uintptr(fd), uintptr(unsafe.Pointer(&b[0])), 1)
		if e == syscall.EINTR {
			continue
		}
		if e != 0 {
			panic("kern: wr failed")
		}
		return
	}
}

// New creates a simulation drawing all of its decisions from c.
func New(c *Choices) *Sim {
	s := &Sim{C: c, back: pipe()}
	S = s
	return s
}

// Go registers a task. All tasks of a run are spawned before Run releases the first
// one, so that the only happens-before edge the kernel contributes is spawn -> task.
func (s *Sim) Go(name string, fn func()) *Task {
	t := &Task{ID: len(s.tasks), Name: name, wake: pipe(), fn: fn, done: make(chan struct{}, 1)}
	s.tasks = append(s.tasks, t)
	go t.run(s)
	return t
}

// GoIdle registers a pool task that is not enabled until Start(t) is called by the
// running task (used for server-side request tasks: work reaches them by message).
func (s *Sim) GoIdle(name string, fn func()) *Task {
	t := s.Go(name, fn)
	t.state = stIdle
	return t
}

//go:norace
func (t *Task) run(s *Sim) {
	rd(t.wake[0])
	t.body(s)
	t.state = stDone
	t.done <- struct{}{}
	wr(s.back[1])
}

func (t *Task) body(s *Sim) {
	defer func() {
		if r := recover(); r != nil {
			if !IsAbort(r) {
				t.setPanic(r, string(debug.Stack()))
			}
		}
	}()
	if s.isAborting() {
		return
	}
	t.fn()
}

//go:norace
func (t *Task) setPanic(r interface{}, stk string) { t.Panic = r; t.PanicStk = stk }

//go:norace
func (s *Sim) isAborting() bool { return s.aborting }

// ---- task side -------------------------------------------------------------------

// Active reports whether the caller runs as a simulated task (the token holder).
//
//go:norace
func Active() bool { return S != nil && S.cur != nil }

// Yield parks the current task at a named scheduling point.
//
//go:norace
func Yield(point string) {
	s := S
	if s == nil || s.cur == nil {
		return
	}
	t := s.cur
	if s.aborting {
		if !t.unwinding {
			t.unwinding = true
			panic(abortSentinel)
		}
		return
	}
	t.point = point
	t.state = stParked
	wr(s.back[1])
	rd(t.wake[0])
	if s.aborting && !t.unwinding {
		t.unwinding = true
		panic(abortSentinel)
	}
}

// Block parks the current task until WakeAll(obj) is called.
//
//go:norace
func Block(obj uintptr, point string) {
	s := S
	if s == nil || s.cur == nil {
		panic("kern.Block outside a simulated task: " + point)
	}
	t := s.cur
	if s.aborting {
		if !t.unwinding {
			t.unwinding = true
			panic(abortSentinel)
		}
		return
	}
	t.state = stBlocked
	t.blocked = obj
	t.point = point
	wr(s.back[1])
	rd(t.wake[0])
	if s.aborting && !t.unwinding {
		t.unwinding = true
		panic(abortSentinel)
	}
}

// WakeAll makes every task blocked on obj enabled again.
//
//go:norace
func WakeAll(obj uintptr) {
	s := S
	if s == nil {
		return
	}
	for _, t := range s.tasks {
		if t.state == stBlocked && t.blocked == obj {
			t.state = stParked
		}
	}
}

// Start enables an idle pool task.
//
//go:norace
func Start(t *Task) {
	if t.state == stIdle {
		t.state = stParked
		t.point = "start"
	}
}

// Seq returns the next global event sequence number (what interval oracles and
// porcupine use; never coarse time).
//
//go:norace
func Seq() int64 {
	s := S
	s.seq++
	return s.seq
}

// CurID returns the id of the running task (-1 on the kernel goroutine).
//
//go:norace
func CurID() int {
	if S == nil || S.cur == nil {
		return -1
	}
	return S.cur.ID
}

// Choose draws from the choice stream on behalf of the running task.
//
//go:norace
func Choose(n int, tag string) int {
	return S.C.Choose(n, tag)
}

// Note appends a trace event (no-op unless tracing).
//
//go:norace
func Note(kind, point, detail string) {
	s := S
	if s == nil || !s.TraceOn {
		return
	}
	s.addEvent(CurID(), kind, point, detail)
}

//go:norace
func (s *Sim) addEvent(task int, kind, point, detail string) {
	s.seq++
	s.Trace = append(s.Trace, Event{Seq: s.seq, Task: task, Kind: kind, Point: point, Detail: detail})
}

// Tracing reports whether detail strings are worth building.
//
//go:norace
func Tracing() bool { return S != nil && S.TraceOn }

// ---- kernel side -----------------------------------------------------------------

//go:norace
func (s *Sim) enabled(buf []*Task) ([]*Task, bool) {
	buf = buf[:0]
	alldone := true
	// the task that ran last comes first: choice 0 = "no context switch"
	if s.last != nil && s.last.state == stParked {
		buf = append(buf, s.last)
	}
	for _, t := range s.tasks {
		if t.state != stDone && t.state != stIdle {
			alldone = false
		}
		if t.state == stParked && t != s.last {
			buf = append(buf, t)
		}
	}
	return buf, alldone
}

//go:norace
func (s *Sim) step(t *Task) {
	s.cur = t
	s.last = t
	t.steps++
	wr(t.wake[1])
	rd(s.back[0])
	s.cur = nil
}

//go:norace
func (s *Sim) describeBlocked() string {
	out := ""
	for _, t := range s.tasks {
		if t.state == stBlocked {
			out += fmt.Sprintf("[%d %s blocked at %s] ", t.ID, t.Name, t.point)
		}
	}
	return out
}

//go:norace
func (s *Sim) hashStep(t *Task) {
	h := s.schedH
	h ^= uint64(t.ID) + 0x9e3779b97f4a7c15
	h *= 0x100000001b3
	for i := 0; i < len(t.point); i++ {
		h ^= uint64(t.point[i])
		h *= 0x100000001b3
	}
	s.schedH = h
}

//go:norace
func (s *Sim) taskInfo(t *Task) (int, string, string) { return t.ID, t.Name, t.point }

// SchedHash is the rolling hash of the (task, point) sequence executed so far.
func (s *Sim) SchedHash() uint64 { return s.schedH }

// SetStepHook installs a kernel-side function evaluated after every step.
func (s *Sim) SetStepHook(f func()) { s.stepHook = f }

// Scheduling strategies, drawn per run from the choice stream.
const (
	StratUniform = iota // every step: uniform choice among enabled tasks (0 = stay)
	StratPCT            // random priorities with 1-3 priority change points
	StratSticky         // mostly stay on the running task, switch with p=1/4
	nStrat
)

// WatchdogSeconds is the real-time bound for one task step (a CPU loop in code under
// test). On expiry the process dumps stacks and exits with status 3.
var WatchdogSeconds = 20

// HangFile, when set, receives a one-line description before a watchdog exit.
var HangFile string

// Run executes the simulation until every started task finished, a deadlock is found
// or maxSteps is exhausted, then tears all tasks down.
func (s *Sim) Run(maxSteps int) {
	s.ran = true
	s.strategy = s.C.Choose(nStrat, "strategy")
	if s.strategy == StratPCT {
		for _, t := range s.tasks {
			t.prio = s.C.Choose(1000, "pct-prio")
		}
		k := 1 + s.C.Choose(3, "pct-k")
		for i := 0; i < k; i++ {
			s.pctAt = append(s.pctAt, s.C.Choose(60, "pct-at"))
		}
	}
	stop := make(chan struct{})
	var beat int64
	go func() { // wall-clock watchdog; never touches task-visible state
		last := int64(-1)
		same := 0
		tk := time.NewTicker(time.Second)
		defer tk.Stop()
		for {
			select {
			case <-stop:
				return
			case <-tk.C:
				b := atomic.LoadInt64(&beat)
				if b == last {
					same++
				} else {
					same, last = 0, b
				}
				if same >= WatchdogSeconds {
					buf := make([]byte, 1<<20)
					n := runtime.Stack(buf, true)
					if HangFile != "" {
						os.WriteFile(HangFile, []byte(fmt.Sprintf("HANG step=%d\n%s", b, buf[:n])), 0644)
					}
					fmt.Fprintf(os.Stderr, "KERN-WATCHDOG: a task did not reach its next yield point within %ds\n%s\n", WatchdogSeconds, buf[:n])
					os.Exit(3)
				}
			}
		}
	}()
	var buf []*Task
	for {
		en, alldone := s.enabled(buf)
		if alldone {
			break
		}
		if len(en) == 0 {
			s.Dead = true
			s.DeadInfo = s.describeBlocked()
			break
		}
		if s.Steps >= maxSteps {
			s.Budget = true
			break
		}
		var t *Task
		switch s.strategy {
		case StratUniform:
			t = en[s.C.Choose(len(en), "sched")]
		case StratSticky:
			if len(en) > 1 && s.C.Choose(4, "switch") == 3 {
				t = en[1+s.C.Choose(len(en)-1, "sched")]
			} else {
				t = en[0]
			}
		case StratPCT:
			for _, at := range s.pctAt {
				if at == s.Steps && s.last != nil {
					s.last.prio = -s.Steps
				}
			}
			t = en[0]
			for _, c := range en {
				if c.prio > t.prio || (c.prio == t.prio && c.ID < t.ID) {
					t = c
				}
			}
		}
		s.Steps++
		atomic.AddInt64(&beat, 1)
		if s.TraceOn {
			id, name, pt := s.taskInfo(t)
			s.addEvent(id, "run", pt, name)
		}
		s.hashStep(t)
		s.step(t)
		if s.stepHook != nil {
			s.stepHook()
		}
	}
	close(stop)
	s.teardown()
}

//go:norace
func (s *Sim) setAborting() { s.aborting = true }

//go:norace
func (s *Sim) taskState(t *Task) int { return t.state }

// Close releases what a Sim holds when it was created but never Run (a scenario without tasks, or one that returned
// before Run): pipes and parked goroutines. After Run it does nothing.
func (s *Sim) Close() {
	if !s.closed && !s.ran {
		s.teardown()
	}
}

func (s *Sim) teardown() {
	s.closed = true
	s.setAborting()
	for _, t := range s.tasks {
		for s.taskState(t) != stDone {
			// release it: it unwinds with the abort sentinel (or returns at once if idle)
			s.step(t)
		}
	}
	for _, t := range s.tasks {
		<-t.done
		syscall.Close(t.wake[0])
		syscall.Close(t.wake[1])
	}
	syscall.Close(s.back[0])
	syscall.Close(s.back[1])
	S = nil
}

// RunThen is Run followed by f (back end B runs f inside the run's bubble; here it simply comes after, unless the
// run ended in a deadlock or out of budget: then nothing is quiescent and f is skipped).
func (s *Sim) RunThen(maxSteps int, f func()) {
	s.Run(maxSteps)
	if !s.Dead && !s.Budget {
		f()
	}
}

// Tasks returns the task list (after Run: for inspecting panics).
func (s *Sim) Tasks() []*Task { return s.tasks }
