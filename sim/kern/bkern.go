//go:build bkern

// Package kern, back end B variant ("bubble kernel", build tag bkern; go1.26.8 with the runtime overlay of
// overlayfiles/runtime only).
//
// The same API as the token kernel, for the same scenario sources, but tasks are ordinary goroutines inside a
// testing/synctest bubble on one P without asynchronous preemption. A yield point is a seeded coin: heads calls
// runtime.Gosched. Which goroutine runs next is the runtime's run queue, whose order (and the preemption of a
// goroutine that has just woken another one) comes from the runtime seam's seeded stream. Blocking on anything the
// sync shim does not cover - channels, select, real mutexes - is simply native blocking here, so code that the
// token kernel cannot follow (a task waiting for another task on a channel while it holds the token) runs fine.
// Kernel bookkeeping is plain memory in //go:norace functions: only one goroutine runs at a time, and the race
// detector must not see edges the program did not make.
package kern

import (
	"fmt"
	"runtime"
	"runtime/debug"
	"testing"
	"testing/synctest"
)

type abortT struct{}

var abortSentinel = &abortT{}

func IsAbort(v interface{}) bool { return v == interface{}(abortSentinel) }

type Task struct {
	ID       int
	Name     string
	fn       func()
	goid     uint64
	state    int // 0 not started, 1 running, 2 done
	point    string
	blockedN int
	Panic    interface{}
	PanicStk string
	idle     bool
}

type Event struct {
	Seq    int64  `json:"seq"`
	Task   int    `json:"task"`
	Kind   string `json:"kind"`
	Point  string `json:"point,omitempty"`
	Detail string `json:"detail,omitempty"`
}

type Sim struct {
	C         *Choices
	tasks     []*Task
	seq       int64
	aborting  bool
	TraceOn   bool
	Trace     []Event
	Steps     int
	Dead      bool
	DeadInfo  string
	Budget    bool
	schedH    uint64
	maxSteps  int
	idleSpins int
	running   bool
	inHook    bool
	stepHook  func()
}

var S *Sim

// T is the test the current run belongs to (set by the harness before the scenario is called).
var T *testing.T

// WatchdogSeconds / HangFile exist for API compatibility with the token kernel.
var WatchdogSeconds = 20
var HangFile string

func New(c *Choices) *Sim {
	s := &Sim{C: c}
	S = s
	return s
}

func (s *Sim) Go(name string, fn func()) *Task {
	t := &Task{ID: len(s.tasks), Name: name, fn: fn}
	s.tasks = append(s.tasks, t)
	if s.running {
		s.start(t)
	}
	return t
}

func (s *Sim) GoIdle(name string, fn func()) *Task {
	t := s.Go(name, fn)
	t.idle = true
	return t
}

// Start enables an idle pool task.
func Start(t *Task) {
	if t.idle && t.state == 0 && S != nil && S.running {
		t.idle = false
		S.start(t)
	}
}

//go:norace
func goid() uint64 {
	var buf [64]byte
	n := runtime.Stack(buf[:], false)
	// "goroutine 123 ["
	var id uint64
	for i := len("goroutine "); i < n && buf[i] >= '0' && buf[i] <= '9'; i++ {
		id = id*10 + uint64(buf[i]-'0')
	}
	return id
}

//go:norace
func (s *Sim) curTask() *Task {
	g := goid()
	for _, t := range s.tasks {
		if t.goid == g {
			return t
		}
	}
	return nil
}

func (s *Sim) start(t *Task) {
	t.state = 1
	go func() {
		t.setGoid(goid())
		defer func() {
			if r := recover(); r != nil && !IsAbort(r) {
				t.setPanic(r, string(debug.Stack()))
			}
			t.setDone()
		}()
		t.fn()
	}()
}

//go:norace
func (t *Task) setGoid(g uint64) { t.goid = g }

//go:norace
func (t *Task) setDone() { t.state = 2 }

//go:norace
func (t *Task) setPanic(r interface{}, stk string) { t.Panic = r; t.PanicStk = stk }

//go:norace
func Active() bool { return S != nil && S.running && !S.inHook && S.curTask() != nil }

//go:norace
func (s *Sim) hash(t *Task, point string) {
	h := s.schedH
	h ^= uint64(t.ID) + 0x9e3779b97f4a7c15
	h *= 0x100000001b3
	for i := 0; i < len(point); i++ {
		h ^= uint64(point[i])
		h *= 0x100000001b3
	}
	s.schedH = h
}

// Yield is a scheduling point: a seeded coin decides whether the goroutine gives way.
//
//go:norace
func Yield(point string) {
	s := S
	if s == nil || !s.running || s.inHook {
		return
	}
	t := s.curTask()
	if t == nil {
		return // a goroutine the program started itself: the runtime schedules it, nothing to do here
	}
	if s.aborting {
		panic(abortSentinel)
	}
	s.Steps++
	s.idleSpins = 0
	t.point = point
	s.hash(t, point)
	if s.TraceOn {
		s.addEvent(t.ID, "run", point, t.Name)
	}
	if s.Steps > s.maxSteps {
		s.Budget = true
		s.aborting = true
		panic(abortSentinel)
	}
	if s.C.Choose(2, "yield") == 1 {
		runtime.Gosched()
		if s.aborting {
			panic(abortSentinel)
		}
	}
	if s.stepHook != nil {
		// the hook is the kernel's own code (an invariant evaluated after every step): while it runs, the shim must
		// behave as outside a task
		s.inHook = true
		s.stepHook()
		s.inHook = false
	}
}

// Block is called in a retry loop by the sync shim (try; if it fails, Block; try again): here it gives way.
// If nothing but such retries happens for long, everybody is waiting for everybody: deadlock.
//
//go:norace
func Block(obj uintptr, point string) {
	s := S
	if s == nil || !s.running {
		runtime.Gosched()
		return
	}
	t := s.curTask()
	if s.aborting {
		panic(abortSentinel)
	}
	if t != nil {
		t.point = point
	}
	s.idleSpins++
	if s.idleSpins > 20000 {
		s.Dead = true
		s.DeadInfo = s.describe()
		s.aborting = true
		panic(abortSentinel)
	}
	runtime.Gosched()
	if s.aborting {
		panic(abortSentinel)
	}
}

//go:norace
func WakeAll(obj uintptr) {
	if S != nil {
		S.idleSpins = 0
	}
}

//go:norace
func (s *Sim) describe() string {
	out := ""
	for _, t := range s.tasks {
		if t.state == 1 {
			out += fmt.Sprintf("[%d %s at %s] ", t.ID, t.Name, t.point)
		}
	}
	return out
}

//go:norace
func Seq() int64 {
	s := S
	s.seq++
	return s.seq
}

//go:norace
func CurID() int {
	if S == nil {
		return -1
	}
	if t := S.curTask(); t != nil {
		return t.ID
	}
	return -1
}

//go:norace
func Choose(n int, tag string) int { return S.C.Choose(n, tag) }

//go:norace
func Note(kind, point, detail string) {
	s := S
	if s == nil || !s.TraceOn {
		return
	}
	s.addEvent(CurID(), kind, point, detail)
}

//go:norace
func (s *Sim) addEvent(task int, kind, point, detail string) {
	s.seq++
	s.Trace = append(s.Trace, Event{Seq: s.seq, Task: task, Kind: kind, Point: point, Detail: detail})
}

//go:norace
func Tracing() bool { return S != nil && S.TraceOn }

func (s *Sim) SchedHash() uint64    { return s.schedH }
func (s *Sim) SetStepHook(f func()) { s.stepHook = f }
func (s *Sim) Tasks() []*Task       { return s.tasks }

//go:norace
func (s *Sim) allDone() bool {
	for _, t := range s.tasks {
		if t.state == 1 {
			return false
		}
	}
	return true
}

// Run executes the tasks inside a bubble until all of them finished, a deadlock is found or maxSteps yields happened.
func (s *Sim) Run(maxSteps int) { s.RunThen(maxSteps, nil) }

// RunThen: as Run; then, if every task finished, f runs inside the bubble (what the tasks built may hold primitives
// that belong to it).
func (s *Sim) RunThen(maxSteps int, after func()) {
	s.maxSteps = maxSteps
	// the runtime seam's stream: select order, run-queue order, and whether a goroutine that wakes another one is
	// preempted right after (never, or one time in 2 / 4 / 16)
	seed := uint64(s.C.Choose(1<<30, "rtseed"))
	pre := []uint32{0, 4, 2, 16}[s.C.Choose(4, "preempt")]
	defer func() {
		if r := recover(); r != nil {
			// synctest: "deadlock: all goroutines in bubble are blocked" - tasks blocked natively for ever
			s.Dead = true
			if s.DeadInfo == "" {
				s.DeadInfo = fmt.Sprintf("%v; %s", r, s.describe())
			}
		}
		s.running = false
		runtime.VerifSeed(1, 0)
		S = nil
	}()
	synctest.Test(T, func(*testing.T) {
		runtime.VerifSeed(seed, pre)
		s.running = true
		for _, t := range s.tasks {
			if !t.idle {
				s.start(t)
			}
		}
		spins := 0
		for !s.allDone() {
			runtime.Gosched()
			spins++
			if spins%64 == 0 {
				// everybody may be blocked natively: let the bubble find out (Wait returns when all other
				// goroutines are durably blocked; if tasks are still unfinished then, that is a deadlock)
				synctest.Wait()
				if !s.allDone() && s.stuck() {
					s.Dead = true
					s.DeadInfo = s.describe()
					s.aborting = true
					return // unfinished tasks stay blocked; the bubble's end reports them, recovered above
				}
			}
		}
		if after != nil && !s.Dead && !s.Budget {
			s.running = false // quiescent: the shim degrades to the real primitives
			after()
		}
	})
}

// stuck: after synctest.Wait every other goroutine is durably blocked; a task that is still unfinished cannot
// make progress any more.
//
//go:norace
func (s *Sim) stuck() bool { return true }

// Close: nothing to release on this back end
func (s *Sim) Close() {}
