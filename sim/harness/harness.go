// Package harness is the worker side of every scenario: it turns (seed, run index)
// into a choice stream, executes one simulated run per sub-test of a `go test -race`
// binary, collects reach statistics, and reports the first violation with its choice
// list. The driver (cmd/vcheck) spawns workers, merges their results, replays and
// minimises violations in fresh processes.
package harness

import (
	"encoding/json"
	"fmt"
	"hash/fnv"
	"os"
	"runtime"
	"sort"
	"strconv"
	"strings"
	"testing"
	"time"

	"verif/sim/kern"
)

// Violation describes one property violation found in a run.
type Violation struct {
	Property  string `json:"property"`
	Oracle    string `json:"oracle"`
	Signature string `json:"signature"`
	Message   string `json:"message"`
}

// Ctx is the per-run context handed to a scenario.
type Ctx struct {
	C       *kern.Choices
	Sim     *kern.Sim
	Cfg     map[string]string
	Prop    string // the property this batch is run for (oracles of other properties stay silent unless listed)
	viol    *Violation
	faults  []string // append-only logs (no maps: runtime map ops carry race annotations,
	probes  []string // and tasks have no happens-before edges between them by design)
	cases   []string
	known   []string
	digest  uint64
	sample  []string
	T       *testing.T // the sub-test of this run (back end B needs it for synctest.Test)
	Replay  bool
	SimTime int64 // virtual nanoseconds covered (back end B) — steps are reported separately
}

// Choose draws from the run's choice stream.
func (c *Ctx) Choose(n int, tag string) int { return c.C.Choose(n, tag) }

// Bool draws a boolean that is false when replayed as 0.
func (c *Ctx) Bool(tag string) bool { return c.C.Choose(2, tag) == 1 }

// Pct returns true with probability p/100 (false for replayed zeros).
func (c *Ctx) Pct(p int, tag string) bool { return c.C.Choose(100, tag) >= 100-p }

// NewSim creates the kernel for this run.
func (c *Ctx) NewSim() *kern.Sim {
	c.Sim = kern.New(c.C)
	c.Sim.TraceOn = c.Replay || os.Getenv("VW_TRACE_DUMP") != ""
	return c.Sim
}

// Fault counts an injected fault that actually fired.
//
//go:norace
func (c *Ctx) Fault(kind string) {
	c.faults = append(c.faults, kind)
	if kern.Tracing() {
		kern.Note("fault", kind, "")
	}
}

// Probe counts a rare condition that was reached.
//
//go:norace
func (c *Ctx) Probe(name string) { c.probes = append(c.probes, name) }

// Case records a case key; distinct keys are counted as distinct non-trivial cases.
//
//go:norace
func (c *Ctx) Case(key string) { c.cases = append(c.cases, key) }

// Digest records a 64-bit digest of what this run produced (compared across processes).
//
//go:norace
func (c *Ctx) Digest(d uint64) { c.digest = d }

// Sample keeps a human-readable description of what this run did (first few runs are
// written to the evidence file).
//
//go:norace
func (c *Ctx) Sample(s string) {
	if len(c.sample) < 64 {
		c.sample = append(c.sample, s)
	}
}

// Fail records a violation (the first one of the run wins).
//
//go:norace
func (c *Ctx) Fail(prop, oracle, signature, format string, args ...interface{}) {
	if c.viol != nil {
		return
	}
	if len(ownProps) > 0 && prop != "HARNESS" {
		own := false
		for _, o := range ownProps {
			if o == prop {
				own = true
			}
		}
		if !own {
			// a sibling property's oracle fired in a shared scenario: that property's own check
			// reports it; here it is counted and must not cut the exploration short
			c.known = append(c.known, "foreign:"+prop+":"+oracle)
			return
		}
	}
	if modulePrefix != "" {
		// runs against the root module carry their module in the signature: a finding listed for one module
		// must never hide the same failure in the other
		signature = modulePrefix + signature
	}
	for _, k := range knownSigs {
		if k == signature {
			// an open, listed finding: count it, do not stop — it must hide only itself
			c.known = append(c.known, signature)
			return
		}
	}
	c.viol = &Violation{Property: prop, Oracle: oracle, Signature: signature, Message: fmt.Sprintf(format, args...)}
	if kern.Tracing() {
		kern.Note("violation", oracle, c.viol.Message)
	}
}

// Failed reports whether a violation was recorded.
//
//go:norace
func (c *Ctx) Failed() bool { return c.viol != nil }

// Scenario executes one run.
type Scenario func(c *Ctx)

// Result is what a worker writes for the driver.
type Result struct {
	Scenario  string            `json:"scenario"`
	Cfg       map[string]string `json:"cfg"`
	Seed      uint64            `json:"seed"`
	From      int               `json:"from"`
	Runs      int               `json:"runs"`
	Steps     int64             `json:"steps"`
	SimTimeNs int64             `json:"sim_time_ns"`
	Draws     int64             `json:"draws"`
	Faults    map[string]int    `json:"faults"`
	Probes    map[string]int    `json:"probes"`
	Scheds    []uint64          `json:"scheds"`
	Cases     []uint64          `json:"cases"`
	Samples   []string          `json:"samples"`
	WallS     float64           `json:"wall_s"`
	Viol      *Violation        `json:"violation,omitempty"`
	ViolRun   int               `json:"violation_run"`
	Choices   []uint32          `json:"choices,omitempty"`
	Trace     []kern.Event      `json:"trace,omitempty"`
	TraceHash string            `json:"trace_hash,omitempty"`
	AllHash   string            `json:"all_hash,omitempty"` // hash over all runs' schedule hashes in order (determinism protocol)
	Deadlocks int               `json:"deadlocks"`
	Known     map[string]int    `json:"known,omitempty"`
	OutHash   string            `json:"out_hash,omitempty"`  // digest over all runs' output digests, in order
	RaceText  string            `json:"race_text,omitempty"` // the race detector's reports written during the violating run only
}

var gcOff = os.Getenv("GOGC") == "off"
var knownSigs []string
var ownProps []string
var modulePrefix = func() string {
	if m := os.Getenv("VW_MODULE"); m != "" && m != "v2" {
		return m + "/"
	}
	return ""
}()

func env(k, d string) string {
	if v := os.Getenv(k); v != "" {
		return v
	}
	return d
}

// Main is called from the single Test function of a scenario package.
//
// Environment: VW_MODE=search|replay, VW_SCEN, VW_CFG (k=v,k=v), VW_PROP, VW_SEED,
// VW_FROM, VW_TO, VW_SECONDS (wall budget for search), VW_OUT (result file),
// VW_REPLAY (replay file: JSON with "choices").
func Main(t *testing.T, scens map[string]Scenario) {
	mode := env("VW_MODE", "search")
	name := env("VW_SCEN", "")
	sc, ok := scens[name]
	if !ok {
		names := []string{}
		for k := range scens {
			names = append(names, k)
		}
		sort.Strings(names)
		if mode == "search" && name == "" && len(names) > 0 && os.Getenv("VW_OUT") == "" {
			// plain `go test`: a short smoke run of every scenario
			for _, n := range names {
				smoke(t, n, scens[n])
			}
			return
		}
		t.Fatalf("unknown scenario %q (have %v)", name, names)
	}
	cfg := map[string]string{}
	for _, kv := range strings.Split(env("VW_CFG", ""), ",") {
		if i := strings.IndexByte(kv, '='); i > 0 {
			cfg[kv[:i]] = kv[i+1:]
		}
	}
	seed, _ := strconv.ParseUint(env("VERIF_SEED", env("VW_SEED", "1")), 10, 64)
	from, _ := strconv.Atoi(env("VW_FROM", "0"))
	to, _ := strconv.Atoi(env("VW_TO", "100"))
	secs, _ := strconv.ParseFloat(env("VW_SECONDS", "0"), 64)
	for _, k := range strings.Split(env("VW_KNOWN", ""), ";") {
		if k != "" {
			knownSigs = append(knownSigs, k)
		}
	}
	for _, k := range strings.Split(env("VW_OWN", ""), ",") {
		if k != "" {
			ownProps = append(ownProps, k)
		}
	}
	res := &Result{Known: map[string]int{}, Scenario: name, Cfg: cfg, Seed: seed, From: from, Faults: map[string]int{}, Probes: map[string]int{}, ViolRun: -1}
	kern.HangFile = os.Getenv("VW_OUT") + ".hang"
	start := time.Now()
	scheds := map[uint64]struct{}{}
	cases := map[uint64]struct{}{}
	all := fnv.New64a()
	outh := fnv.New64a()
	progress := os.Getenv("VW_OUT") + ".progress"

	var raceOff int64
	runOne := func(run int, c *kern.Choices, replay bool) *Ctx {
		ctx := &Ctx{C: c, Cfg: cfg, Prop: env("VW_PROP", ""), Replay: replay}
		c.Limit = 200000
		okRun := t.Run(fmt.Sprintf("r%d", run), func(t *testing.T) {
			ctx.T = t
			kern.T = t
			defer func() {
				if ctx.Sim != nil {
					ctx.Sim.Close() // a kernel that was created and never Run still holds its pipe
				}
			}()
			sc(ctx)
		})
		newRace := raceLogSince(&raceOff)
		if !okRun && ctx.viol == nil {
			// the test framework failed the sub-test although no oracle fired:
			// the race detector reported during this run
			if sig, dep := dependencyOnlyRaces(newRace); dep {
				// both accesses of every report lie wholly inside third-party code (no frame of the library
				// under test or of the harness on either access stack): a defect of that dependency, not a
				// property of go-restli. Counted, not reported; the search goes on.
				ctx.probes = append(ctx.probes, "race-inside-dependency:"+sig)
			} else {
				ctx.viol = &Violation{Property: "C17", Oracle: "race", Signature: "race", Message: "race detector reported during this run (see race log)"}
				res.RaceText = newRace
			}
		}
		if c.Over && ctx.viol == nil {
			ctx.viol = &Violation{Property: "HARNESS", Oracle: "choice-limit", Signature: "choice-limit", Message: "run drew more than 200000 choices"}
		}
		return ctx
	}
	merge := func(ctx *Ctx) {
		res.Runs++
		if f := os.Getenv("VW_TRACE_DUMP"); f != "" && ctx.Sim != nil {
			// debugging aid for the determinism protocol: the step trace of every run, appended
			if fh, err := os.OpenFile(f, os.O_APPEND|os.O_CREATE|os.O_WRONLY, 0644); err == nil {
				for _, e := range ctx.Sim.Trace {
					fmt.Fprintf(fh, "%d|%d|%s|%s|%s\n", e.Seq, e.Task, e.Kind, e.Point, e.Detail)
				}
				fh.Close()
			}
		}
		if ctx.Sim != nil {
			res.Steps += int64(ctx.Sim.Steps)
			h := ctx.Sim.SchedHash()
			scheds[h] = struct{}{}
			var b [8]byte
			for i := 0; i < 8; i++ {
				b[i] = byte(h >> (8 * i))
			}
			all.Write(b[:])
			if ctx.Sim.Dead {
				res.Deadlocks++
			}
		}
		outh.Write([]byte(fmt.Sprintf("%016x", ctx.digest)))
		res.SimTimeNs += ctx.SimTime
		res.Draws += int64(len(ctx.C.Log))
		for _, k := range ctx.faults {
			res.Faults[k]++
		}
		for _, k := range ctx.probes {
			res.Probes[k]++
		}
		for _, k := range ctx.known {
			res.Known[k]++
		}
		for _, k := range ctx.cases {
			h := fnv.New64a()
			h.Write([]byte(k))
			cases[h.Sum64()] = struct{}{}
		}
		if len(res.Samples) < 5 {
			res.Samples = append(res.Samples, ctx.sample...)
			if len(res.Samples) > 12 {
				res.Samples = res.Samples[:12]
			}
		}
	}

	switch mode {
	case "search":
		for run := from; run < to; run++ {
			if secs > 0 && time.Since(start).Seconds() > secs {
				break
			}
			if run%64 == 0 {
				os.WriteFile(progress, []byte(strconv.Itoa(run)), 0644)
			}
			os.WriteFile(progress+".cur", []byte(strconv.Itoa(run)), 0644)
			if gcOff && (run-from)%128 == 127 {
				// back end B runs with the collector switched off (no background workers inside a bubble); memory
				// is reclaimed here, between runs, at a point that is the same in every process
				runtime.GC()
			}
			c := kern.NewChoices(kern.Mix(seed, uint64(run)))
			ctx := runOne(run, c, false)
			merge(ctx)
			if ctx.viol != nil {
				res.Viol = ctx.viol
				res.ViolRun = run
				res.Choices = append([]uint32(nil), c.Log...)
				break
			}
		}
	case "replay":
		data, err := os.ReadFile(os.Getenv("VW_REPLAY"))
		if err != nil {
			t.Fatal(err)
		}
		var rf struct {
			Choices []uint32 `json:"choices"`
		}
		if err := json.Unmarshal(data, &rf); err != nil {
			t.Fatal(err)
		}
		c := kern.ReplayChoices(rf.Choices)
		c.KeepTags = true
		ctx := runOne(0, c, true)
		merge(ctx)
		res.Viol = ctx.viol
		if ctx.viol != nil {
			res.ViolRun = 0
		}
		res.Choices = append([]uint32(nil), c.Log...)
		if ctx.Sim != nil {
			res.Trace = ctx.Sim.Trace
		}
		// annotate the choice list for humans
		for i := range c.Log {
			if i < len(c.Tags) && len(res.Trace) < 20000 {
				_ = i
			}
		}
		th := fnv.New64a()
		for _, e := range res.Trace {
			fmt.Fprintf(th, "%d|%d|%s|%s|%s\n", e.Seq, e.Task, e.Kind, e.Point, e.Detail)
		}
		res.TraceHash = fmt.Sprintf("%016x", th.Sum64())
	default:
		t.Fatalf("unknown VW_MODE %q", mode)
	}
	if f := os.Getenv("VW_GOROUTINE_DUMP"); f != "" {
		// debugging aid: what is still alive after the last run (leaks across runs)
		buf := make([]byte, 64<<20)
		n := runtime.Stack(buf, true)
		os.WriteFile(f, append([]byte(fmt.Sprintf("goroutines=%d\n", runtime.NumGoroutine())), buf[:n]...), 0644)
	}
	for k := range scheds {
		res.Scheds = append(res.Scheds, k)
	}
	sort.Slice(res.Scheds, func(i, j int) bool { return res.Scheds[i] < res.Scheds[j] })
	for k := range cases {
		res.Cases = append(res.Cases, k)
	}
	sort.Slice(res.Cases, func(i, j int) bool { return res.Cases[i] < res.Cases[j] })
	res.AllHash = fmt.Sprintf("%016x", all.Sum64())
	res.OutHash = fmt.Sprintf("%016x", outh.Sum64())
	res.WallS = time.Since(start).Seconds()
	if out := os.Getenv("VW_OUT"); out != "" {
		data, _ := json.Marshal(res)
		if err := os.WriteFile(out, data, 0644); err != nil {
			t.Fatal(err)
		}
	} else {
		t.Logf("runs=%d steps=%d scheds=%d cases=%d faults=%v probes=%v viol=%+v allhash=%s wall=%.1fs", res.Runs, res.Steps, len(scheds), len(cases), res.Faults, res.Probes, res.Viol, res.AllHash, res.WallS)
		if res.Viol != nil {
			t.Logf("choices=%v", res.Choices)
		}
	}
}

// raceLogSince returns what the race detector appended to this process's log file since the last call.
func raceLogSince(off *int64) string {
	p := ""
	for _, f := range strings.Fields(os.Getenv("GORACE")) {
		if strings.HasPrefix(f, "log_path=") {
			p = strings.TrimPrefix(f, "log_path=") + "." + strconv.Itoa(os.Getpid())
		}
	}
	if p == "" {
		return ""
	}
	data, err := os.ReadFile(p)
	if err != nil || int64(len(data)) <= *off {
		return ""
	}
	out := string(data[*off:])
	*off = int64(len(data))
	return out
}

// dependencyOnlyRaces: true when the text holds at least one report and, in every report, neither access stack has
// a frame of go-restli or of the harness. Anything unreadable counts as "not dependency-only" (fail loudly).
func dependencyOnlyRaces(text string) (string, bool) {
	reports := strings.Split(text, "WARNING: DATA RACE")
	if len(reports) < 2 {
		return "", false
	}
	sig := ""
	for _, r := range reports[1:] {
		if i := strings.Index(r, "\nGoroutine "); i >= 0 {
			r = r[:i] // the two access stacks; creation stacks name whoever started the goroutines
		} else {
			return "", false
		}
		n := 0
		for _, l := range strings.Split(r, "\n") {
			t := strings.TrimSpace(l)
			if !strings.HasPrefix(l, "  ") || strings.HasPrefix(t, "/") || !strings.HasSuffix(t, ")") {
				continue
			}
			n++
			if strings.Contains(t, "PapaCharlie/go-restli") || strings.HasPrefix(t, "vscratch/") || strings.HasPrefix(t, "verif/") {
				return "", false
			}
			if sig == "" && !strings.HasPrefix(t, "runtime.") && !strings.HasPrefix(t, "sync") {
				sig = strings.TrimSuffix(t, "()")
			}
		}
		if n < 2 {
			return "", false
		}
	}
	return sig, true
}

func smoke(t *testing.T, name string, sc Scenario) {
	for run := 0; run < 50; run++ {
		c := kern.NewChoices(kern.Mix(1, uint64(run)))
		ctx := &Ctx{C: c, Cfg: map[string]string{}}
		sc(ctx)
		if ctx.viol != nil {
			t.Errorf("%s run %d: %+v choices=%v", name, run, ctx.viol, c.Log)
			return
		}
	}
}
