// Package simrt holds the run-time halves of the map-order and random-source seams.
package simrt

import (
	"fmt"
	"reflect"
	"sort"
	"strconv"
)

// Order, when non-nil, is asked for a permutation draw: it returns a value in [0,n).
// It is installed by a scenario for the duration of a run (the choice stream) and nil
// otherwise, in which case maps iterate in canonical (sorted) order.
var Order func(n int, tag string) int

// Sites counts range sites executed with >= 2 entries and how many of them were
// given a non-identity order (reach probes for the evidence file).
var Sites, Permuted, Unordered int64

// The seam's own globals are touched from every task; they are accessed only through
// //go:norace helpers so that they never show up as (harness-made) races, while the
// map reads in Entries itself stay instrumented.

//go:norace
func getOrder() func(int, string) int { return Order }

//go:norace
func incSites() { Sites++ }

//go:norace
func incPermuted() { Permuted++ }

//go:norace
func incUnordered() { Unordered++ }

type Entry[K comparable, V any] struct {
	K K
	V V
	m map[K]V
}

// Get re-reads the entry the way Go's map iteration would: an entry deleted before
// it is reached is skipped, and the value is the current one.
func (e Entry[K, V]) Get() (V, bool) {
	if e.K != e.K { // NaN keys cannot be looked up; keep the snapshot
		return e.V, true
	}
	v, ok := e.m[e.K]
	return v, ok
}

func keyString(v reflect.Value) (string, bool) {
	switch v.Kind() {
	case reflect.String:
		return "s" + v.String(), true
	case reflect.Int, reflect.Int8, reflect.Int16, reflect.Int32, reflect.Int64:
		return fmt.Sprintf("i%020d", uint64(v.Int())^(1<<63)), true
	case reflect.Uint, reflect.Uint8, reflect.Uint16, reflect.Uint32, reflect.Uint64, reflect.Uintptr:
		return fmt.Sprintf("u%020d", v.Uint()), true
	case reflect.Bool:
		return "b" + strconv.FormatBool(v.Bool()), true
	case reflect.Float32, reflect.Float64:
		return "f" + strconv.FormatFloat(v.Float(), 'g', -1, 64), true
	case reflect.Struct:
		s := "{"
		for i := 0; i < v.NumField(); i++ {
			fs, ok := keyString(v.Field(i))
			if !ok {
				return "", false
			}
			s += fs + ";"
		}
		return s + "}", true
	case reflect.Array:
		s := "["
		for i := 0; i < v.Len(); i++ {
			fs, ok := keyString(v.Index(i))
			if !ok {
				return "", false
			}
			s += fs + ";"
		}
		return s + "]", true
	case reflect.Interface:
		if v.IsNil() {
			return "nil", true
		}
		s, ok := keyString(v.Elem())
		return v.Elem().Type().String() + ":" + s, ok
	case reflect.Ptr:
		if v.IsNil() {
			return "nilptr", true
		}
		return "", false // address order is not reproducible
	}
	return "", false
}

// Entries snapshots m in canonical key order and applies a permutation drawn from
// the simulator.
func Entries[K comparable, V any](m map[K]V) []Entry[K, V] {
	n := len(m)
	if n == 0 {
		return nil
	}
	es := make([]Entry[K, V], 0, n)
	for k, v := range m {
		es = append(es, Entry[K, V]{k, v, m})
	}
	if n == 1 {
		return es
	}
	keys := make([]string, n)
	idx := make([]int, n)
	ordered := true
	for i := range es {
		s, ok := keyString(reflect.ValueOf(&es[i].K).Elem())
		if !ok {
			ordered = false
			break
		}
		keys[i] = s
		idx[i] = i
	}
	if !ordered {
		incUnordered()
		return es // Go's own (random) order: legal, but not controlled
	}
	sort.SliceStable(idx, func(a, b int) bool { return keys[idx[a]] < keys[idx[b]] })
	out := make([]Entry[K, V], n)
	for i, j := range idx {
		out[i] = es[j]
	}
	incSites()
	if order := getOrder(); order != nil {
		moved := false
		// Fisher-Yates from the front; a drawn 0 keeps the element in place
		for i := 0; i < n-1; i++ {
			j := i + order(n-i, "maporder")
			if j != i {
				out[i], out[j] = out[j], out[i]
				moved = true
			}
		}
		if moved {
			incPermuted()
		}
	}
	return out
}
