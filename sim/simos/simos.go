// Package simos stands between the code generator and the file system (calls are
// redirected here by the build overlay). The "disk" is a real scratch directory; what
// is simulated is the path to it: every call is counted, destructive calls are checked
// by the ownership monitor at the instant they happen, and one call per process may be
// failed, torn or turned into a crash, as told by the environment.
package simos

import (
	"fmt"
	"io/fs"
	"os"
	"path/filepath"
	"strings"
	"syscall"
)

const generatedSuffix = ".gr.go"

// the file in which the generator records what it was run on: go-restli-manifest.gr.json in the v2 module,
// parsed-specs.gr.json in the root module (GENSIM_MANIFEST_NAME)
var manifestName = func() string {
	if n := os.Getenv("GENSIM_MANIFEST_NAME"); n != "" {
		return n
	}
	return "go-restli-manifest.gr.json"
}()

var (
	FailAt   = -1 // ordinal (1-based) of the call to disturb
	FailKind = "" // eacces | enospc | eio | torn | crash | crash-after
	LogPath  = "" // monitor log
	calls    int
	Fired    bool
	logf     *os.File
)

func init() {
	if v := os.Getenv("GENSIM_FAIL_AT"); v != "" {
		fmt.Sscan(v, &FailAt)
	}
	FailKind = os.Getenv("GENSIM_FAIL_KIND")
	LogPath = os.Getenv("GENSIM_LOG")
	if LogPath != "" {
		logf, _ = os.OpenFile(LogPath, os.O_APPEND|os.O_CREATE|os.O_WRONLY, 0644)
	}
}

func logLine(format string, a ...interface{}) {
	if logf != nil {
		fmt.Fprintf(logf, format+"\n", a...)
	}
}

// selfCreated: temporary files this process made itself through CreateTemp. Moving, changing or removing
// them takes nothing from the user (an atomic write-then-rename is a legitimate way to produce a generated
// file); what they are renamed TO is still checked, and debris left behind shows in the final tree.
var selfCreated = map[string]bool{}

// Owned: may the generator remove / overwrite / create this path?
func Owned(path string) bool {
	b := filepath.Base(path)
	return strings.HasSuffix(b, generatedSuffix) || b == manifestName
}

func emptyDir(path string) bool {
	es, err := os.ReadDir(path)
	return err == nil && len(es) == 0
}

// monitor evaluates the ownership rule for a destructive call, before it happens.
func monitor(op, path string) {
	st, err := os.Lstat(path)
	switch op {
	case "remove", "removeall", "rename-from", "chmod", "truncate":
		if err != nil {
			return // nothing there: nothing can be lost
		}
		if st.IsDir() {
			if !emptyDir(path) {
				if op == "removeall" || op == "rename-from" {
					// Taking a whole directory away is what the property allows exactly when everything in it is
					// the generator's own (the outcome is that of removing the owned files and then the directories
					// this left empty); one foreign entry anywhere below makes it a loss.
					if foreign := firstForeign(path); foreign != "" {
						logLine("VIOLATION %s %s a directory that holds %s, which is not a generated file or the manifest", op, path, foreign)
					}
				}
				// os.Remove on a non-empty directory fails by itself
			}
			return
		}
		if !Owned(path) && !selfCreated[filepath.Clean(path)] {
			logLine("VIOLATION %s %s is not a generated file or the manifest", op, path)
		}
	case "write", "create", "rename-to":
		if err == nil && !st.IsDir() && !Owned(path) {
			logLine("VIOLATION %s %s overwrites a file the generator does not own", op, path)
		}
		if err != nil && !Owned(path) && !strings.HasPrefix(filepath.Base(path), "gensim-tmp") {
			logLine("VIOLATION %s %s creates a file that does not carry the generated-code suffix", op, path)
		}
	}
}

// firstForeign walks a directory (without following symbolic links) and returns the first entry that is neither a
// directory nor owned by the generator nor one of its own temporaries; "" if there is none.
func firstForeign(dir string) string {
	found := ""
	filepath.Walk(dir, func(p string, info os.FileInfo, err error) error {
		if err != nil || found != "" {
			return nil
		}
		if info.IsDir() {
			return nil
		}
		if !Owned(p) && !selfCreated[filepath.Clean(p)] {
			found = p
		}
		return nil
	})
	return found
}

// step counts the call and applies the planned disturbance. torn is called for the
// kinds that damage instead of failing cleanly.
func step(op, path string, destructive bool, torn func()) error {
	calls++
	logLine("CALL %d %s %s", calls, op, path)
	if destructive {
		monitor(op, path)
	}
	if calls != FailAt {
		return nil
	}
	if FailKind == "crash-after" {
		return nil // crashAfter() fires once the real call has completed
	}
	Fired = true
	logLine("FAULT %d %s %s", calls, FailKind, op)
	mk := func(e syscall.Errno) error { return &fs.PathError{Op: op, Path: path, Err: e} }
	switch FailKind {
	case "eacces":
		return mk(syscall.EACCES)
	case "enospc":
		return mk(syscall.ENOSPC)
	case "eio":
		return mk(syscall.EIO)
	case "torn":
		if torn != nil {
			torn()
		}
		return mk(syscall.ENOSPC)
	case "crash":
		logf.Sync()
		os.Exit(137)
	case "crash-torn":
		if torn != nil {
			torn()
		}
		logf.Sync()
		os.Exit(137)
	}
	return nil
}

// crashAfter: a crash right after the call completed.
func crashAfter() {
	if calls == FailAt && FailKind == "crash-after" {
		logLine("FAULT %d crash-after", calls)
		logf.Sync()
		os.Exit(137)
	}
}

func Remove(name string) error {
	if err := step("remove", name, true, nil); err != nil {
		return err
	}
	err := os.Remove(name)
	crashAfter()
	return err
}

func RemoveAll(name string) error {
	if err := step("removeall", name, true, nil); err != nil {
		return err
	}
	err := os.RemoveAll(name)
	crashAfter()
	return err
}

func Rename(o, n string) error {
	monitor("rename-to", n)
	if err := step("rename-from", o, true, nil); err != nil {
		return err
	}
	err := os.Rename(o, n)
	crashAfter()
	return err
}

func WriteFile(name string, data []byte, perm os.FileMode) error {
	if err := step("write", name, true, func() { os.WriteFile(name, data[:len(data)/2], perm) }); err != nil {
		return err
	}
	err := os.WriteFile(name, data, perm)
	crashAfter()
	return err
}

func IoutilWriteFile(name string, data []byte, perm os.FileMode) error {
	return WriteFile(name, data, perm)
}

func Create(name string) (*os.File, error) {
	if err := step("create", name, true, nil); err != nil {
		return nil, err
	}
	f, err := os.Create(name)
	crashAfter()
	return f, err
}

func OpenFile(name string, flag int, perm os.FileMode) (*os.File, error) {
	if flag&(os.O_WRONLY|os.O_RDWR|os.O_CREATE|os.O_TRUNC|os.O_APPEND) != 0 {
		if err := step("create", name, true, nil); err != nil {
			return nil, err
		}
	}
	f, err := os.OpenFile(name, flag, perm)
	crashAfter()
	return f, err
}

func Open(name string) (*os.File, error) {
	if err := step("open", name, false, nil); err != nil {
		return nil, err
	}
	f, err := os.Open(name)
	crashAfter()
	return f, err
}

func Mkdir(name string, perm os.FileMode) error {
	if err := step("mkdir", name, false, nil); err != nil {
		return err
	}
	err := os.Mkdir(name, perm)
	crashAfter()
	return err
}

func MkdirAll(name string, perm os.FileMode) error {
	if err := step("mkdirall", name, false, nil); err != nil {
		return err
	}
	err := os.MkdirAll(name, perm)
	crashAfter()
	return err
}

func Chmod(name string, mode os.FileMode) error {
	if err := step("chmod", name, true, nil); err != nil {
		return err
	}
	err := os.Chmod(name, mode)
	crashAfter()
	return err
}

func Truncate(name string, size int64) error {
	if err := step("truncate", name, true, nil); err != nil {
		return err
	}
	err := os.Truncate(name, size)
	crashAfter()
	return err
}

func Symlink(o, n string) error { return os.Symlink(o, n) }
func Link(o, n string) error    { return os.Link(o, n) }

func CreateTemp(dir, pattern string) (*os.File, error) {
	if err := step("createtemp", filepath.Join(dir, pattern), false, nil); err != nil {
		return nil, err
	}
	f, err := os.CreateTemp(dir, "gensim-tmp"+pattern)
	if err == nil {
		selfCreated[filepath.Clean(f.Name())] = true
	}
	crashAfter()
	return f, err
}
func IoutilTempFile(dir, pattern string) (*os.File, error) { return CreateTemp(dir, pattern) }
func MkdirTemp(dir, pattern string) (string, error)        { return os.MkdirTemp(dir, pattern) }
func IoutilTempDir(dir, pattern string) (string, error)    { return os.MkdirTemp(dir, pattern) }

func ReadDir(name string) ([]os.DirEntry, error) {
	if err := step("readdir", name, false, nil); err != nil {
		return nil, err
	}
	es, err := os.ReadDir(name)
	crashAfter()
	return es, err
}

func IoutilReadDir(name string) ([]fs.FileInfo, error) {
	if err := step("readdir", name, false, nil); err != nil {
		return nil, err
	}
	es, err := os.ReadDir(name)
	crashAfter()
	if err != nil {
		return nil, err
	}
	var out []fs.FileInfo
	for _, e := range es {
		fi, err := e.Info()
		if err != nil {
			return nil, err
		}
		out = append(out, fi)
	}
	return out, nil
}

func Stat(name string) (os.FileInfo, error) {
	if err := step("stat", name, false, nil); err != nil {
		return nil, err
	}
	fi, err := os.Stat(name)
	crashAfter()
	return fi, err
}

func Lstat(name string) (os.FileInfo, error) {
	if err := step("lstat", name, false, nil); err != nil {
		return nil, err
	}
	fi, err := os.Lstat(name)
	crashAfter()
	return fi, err
}

func ReadFile(name string) ([]byte, error) {
	if err := step("readfile", name, false, nil); err != nil {
		return nil, err
	}
	data, err := os.ReadFile(name)
	crashAfter()
	return data, err
}

func IoutilReadFile(name string) ([]byte, error) { return ReadFile(name) }

// Calls returns the number of intercepted calls so far.
func Calls() int { return calls }
