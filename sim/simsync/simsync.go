// Package simsync replaces package sync in code under test (by import-path swap in an
// overlay copy). Every operation is a scheduling point of the kernel followed by the
// real operation, so the race detector keeps the program's true happens-before edges
// while the kernel decides when each operation may proceed. Outside a simulated task
// (package init, harness set-up) every method degrades to the real primitive.
package simsync

import (
	"sync"
	"unsafe"

	"verif/sim/kern"
)

type Locker = sync.Locker

// Pool is a deterministic sync.Pool: one LIFO free list instead of per-P caches that the
// garbage collector empties at times of its choosing, so that which object a Get returns is a
// function of the schedule alone (and reuse is as eager as it can legally be). Put -> Get of
// the same object is a happens-before edge, as with the real pool.
type Pool struct {
	New   func() interface{}
	mu    sync.Mutex
	items []interface{}
}

func (p *Pool) Get() interface{} {
	kern.Yield("Pool.Get")
	p.mu.Lock()
	var x interface{}
	if n := len(p.items); n > 0 {
		x = p.items[n-1]
		p.items = p.items[:n-1]
	}
	p.mu.Unlock()
	if x == nil && p.New != nil {
		x = p.New()
	}
	return x
}

func (p *Pool) Put(x interface{}) {
	if x == nil {
		return
	}
	kern.Yield("Pool.Put")
	p.mu.Lock()
	p.items = append(p.items, x)
	p.mu.Unlock()
}

// ---- Map -------------------------------------------------------------------------

type Map struct{ real sync.Map }

func (m *Map) Load(k interface{}) (interface{}, bool) {
	kern.Yield("Map.Load")
	return m.real.Load(k)
}
func (m *Map) Store(k, v interface{}) {
	kern.Yield("Map.Store")
	m.real.Store(k, v)
}
func (m *Map) LoadOrStore(k, v interface{}) (interface{}, bool) {
	kern.Yield("Map.LoadOrStore")
	return m.real.LoadOrStore(k, v)
}
func (m *Map) LoadAndDelete(k interface{}) (interface{}, bool) {
	kern.Yield("Map.LoadAndDelete")
	return m.real.LoadAndDelete(k)
}
func (m *Map) Delete(k interface{}) {
	kern.Yield("Map.Delete")
	m.real.Delete(k)
}
func (m *Map) Swap(k, v interface{}) (interface{}, bool) {
	kern.Yield("Map.Swap")
	return m.real.Swap(k, v)
}
func (m *Map) CompareAndSwap(k, o, n interface{}) bool {
	kern.Yield("Map.CompareAndSwap")
	return m.real.CompareAndSwap(k, o, n)
}
func (m *Map) CompareAndDelete(k, o interface{}) bool {
	kern.Yield("Map.CompareAndDelete")
	return m.real.CompareAndDelete(k, o)
}

// Range visits a snapshot taken at one scheduling point, in insertion-independent
// real order, yielding before each callback (sync.Map.Range is not atomic either).
func (m *Map) Range(f func(k, v interface{}) bool) {
	kern.Yield("Map.Range")
	m.real.Range(func(k, v interface{}) bool {
		kern.Yield("Map.Range.next")
		return f(k, v)
	})
}

// ---- WaitGroup -------------------------------------------------------------------

type WaitGroup struct {
	real sync.WaitGroup
	n    int
}

//go:norace
func (w *WaitGroup) add(d int) int { w.n += d; return w.n }

//go:norace
func (w *WaitGroup) cnt() int { return w.n }

func (w *WaitGroup) Add(d int) {
	kern.Yield("WaitGroup.Add")
	w.real.Add(d)
	if w.add(d) == 0 {
		kern.WakeAll(uintptr(unsafe.Pointer(w)))
	}
}
func (w *WaitGroup) Done() { w.Add(-1) }
func (w *WaitGroup) Wait() {
	kern.Yield("WaitGroup.Wait")
	if kern.Active() {
		for w.cnt() > 0 {
			kern.Block(uintptr(unsafe.Pointer(w)), "WaitGroup.Wait")
		}
	}
	w.real.Wait()
}

// ---- Mutex -----------------------------------------------------------------------

type Mutex struct {
	real sync.Mutex
	held bool
}

//go:norace
func (m *Mutex) isHeld() bool { return m.held }

//go:norace
func (m *Mutex) setHeld(b bool) { m.held = b }

func (m *Mutex) Lock() {
	kern.Yield("Mutex.Lock")
	if kern.Active() {
		for m.isHeld() {
			kern.Block(uintptr(unsafe.Pointer(m)), "Mutex.Lock")
		}
	}
	m.real.Lock()
	m.setHeld(true)
}
func (m *Mutex) TryLock() bool {
	kern.Yield("Mutex.TryLock")
	if m.real.TryLock() {
		m.setHeld(true)
		return true
	}
	return false
}
func (m *Mutex) Unlock() {
	m.setHeld(false)
	m.real.Unlock()
	kern.WakeAll(uintptr(unsafe.Pointer(m)))
	kern.Yield("Mutex.Unlock")
}

// ---- RWMutex ---------------------------------------------------------------------

type RWMutex struct {
	real    sync.RWMutex
	writer  bool
	readers int
}

//go:norace
func (m *RWMutex) st() (bool, int) { return m.writer, m.readers }

//go:norace
func (m *RWMutex) setW(b bool) { m.writer = b }

//go:norace
func (m *RWMutex) addR(d int) { m.readers += d }

func (m *RWMutex) Lock() {
	kern.Yield("RWMutex.Lock")
	if kern.Active() {
		for {
			w, r := m.st()
			if !w && r == 0 {
				break
			}
			kern.Block(uintptr(unsafe.Pointer(m)), "RWMutex.Lock")
		}
	}
	m.real.Lock()
	m.setW(true)
}
func (m *RWMutex) Unlock() {
	m.setW(false)
	m.real.Unlock()
	kern.WakeAll(uintptr(unsafe.Pointer(m)))
	kern.Yield("RWMutex.Unlock")
}
func (m *RWMutex) RLock() {
	kern.Yield("RWMutex.RLock")
	if kern.Active() {
		for {
			w, _ := m.st()
			if !w {
				break
			}
			kern.Block(uintptr(unsafe.Pointer(m)), "RWMutex.RLock")
		}
	}
	m.real.RLock()
	m.addR(1)
}
func (m *RWMutex) RUnlock() {
	m.addR(-1)
	m.real.RUnlock()
	kern.WakeAll(uintptr(unsafe.Pointer(m)))
	kern.Yield("RWMutex.RUnlock")
}
func (m *RWMutex) RLocker() Locker { return (*rlocker)(m) }

type rlocker RWMutex

func (r *rlocker) Lock()   { (*RWMutex)(r).RLock() }
func (r *rlocker) Unlock() { (*RWMutex)(r).RUnlock() }

// ---- Once ------------------------------------------------------------------------

type Once struct {
	m    Mutex
	done bool
}

func (o *Once) Do(f func()) {
	o.m.Lock()
	defer o.m.Unlock()
	if !o.done {
		defer func() { o.done = true }()
		f()
	}
}

// ---- Cond ------------------------------------------------------------------------

type Cond struct {
	L   Locker
	gen int
}

func NewCond(l Locker) *Cond { return &Cond{L: l} }

//go:norace
func (c *Cond) g() int { return c.gen }

//go:norace
func (c *Cond) bump() { c.gen++ }

func (c *Cond) Wait() {
	g := c.g()
	c.L.Unlock()
	for c.g() == g {
		kern.Block(uintptr(unsafe.Pointer(c)), "Cond.Wait")
	}
	c.L.Lock()
}
func (c *Cond) Signal() { c.Broadcast() } // spurious wake-ups are legal for Cond users
func (c *Cond) Broadcast() {
	c.bump()
	kern.WakeAll(uintptr(unsafe.Pointer(c)))
	kern.Yield("Cond.Broadcast")
}
