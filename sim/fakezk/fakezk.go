// Package fakezk is the simulated ZooKeeper ensemble of scenario S3: an in-memory
// znode tree plus a session layer that speaks the ZooKeeper wire protocol
// (length-prefixed jute: connect handshake, exists, getData, getChildren2, ping,
// setWatches, close, watcher events) over net.Pipe, handed to the real
// github.com/go-zookeeper/zk client through zk.WithDialer. The simulator owns every
// tree mutation, response latency, watch-event delivery, connection drops, session
// expiry and per-request error replies.
package fakezk

import (
	"encoding/binary"
	"fmt"
	"io"
	"net"
	"sort"
	"strings"
	"sync"
	"time"
)

type node struct {
	data     []byte
	version  int32
	cversion int32
	mzxid    int64 // transaction that last changed the node's data (or created it)
	pzxid    int64 // transaction that last changed the node's set of children
}

type FakeZK struct {
	mu         sync.Mutex
	nodes      map[string]*node
	zxid       int64
	sessions   []*session
	Log        []string // every request / response code / event, in order (the trace)
	nextSID    int64
	expired    map[int64]bool
	Latency    func(op int32, path string) time.Duration // virtual latency per request (fake clock)
	FailNext   map[string]int32                          // "op path" -> error code for the next such request
	ReqCount   map[string]int                            // "op path" -> number of requests seen
	Dials      int
	RefuseDial bool
	// Hold: watch notifications are queued instead of sent; the simulator delivers them one at a
	// time (DeliverOne) — the watch itself is consumed when the change happens, as in ZooKeeper
	Hold    bool
	pending []heldEvent
}

type heldEvent struct {
	s    *session
	pkt  []byte
	desc string
	zxid int64 // the transaction that caused it
}

type session struct {
	zk     *FakeZK
	c      net.Conn
	id     int64
	out    chan []byte
	dataW  map[string]bool
	childW map[string]bool
	existW map[string]bool
	closed bool
}

func New() *FakeZK {
	return &FakeZK{nodes: map[string]*node{"/": {}}, expired: map[int64]bool{}, FailNext: map[string]int32{}, ReqCount: map[string]int{}, nextSID: 100}
}

func (z *FakeZK) logf(format string, a ...interface{}) {
	z.Log = append(z.Log, fmt.Sprintf(format, a...))
}

// Dial is the zk.Dialer.
func (z *FakeZK) Dial(network, addr string, _ time.Duration) (net.Conn, error) {
	z.mu.Lock()
	defer z.mu.Unlock()
	z.Dials++
	if z.RefuseDial {
		z.logf("dial refused")
		return nil, fmt.Errorf("fakezk: connection refused")
	}
	cl, sv := net.Pipe()
	s := &session{zk: z, c: sv, out: make(chan []byte, 256), dataW: map[string]bool{}, childW: map[string]bool{}, existW: map[string]bool{}}
	z.sessions = append(z.sessions, s)
	z.logf("dial #%d", z.Dials)
	go s.writer()
	go s.serve()
	return cl, nil
}

type enc struct{ b []byte }

func (e *enc) i32(v int32)  { e.b = binary.BigEndian.AppendUint32(e.b, uint32(v)) }
func (e *enc) i64(v int64)  { e.b = binary.BigEndian.AppendUint64(e.b, uint64(v)) }
func (e *enc) buf(v []byte) { e.i32(int32(len(v))); e.b = append(e.b, v...) }
func (e *enc) str(v string) { e.buf([]byte(v)) }
func (e *enc) stat(n *node, nchildren int) {
	e.i64(1)
	e.i64(1)
	e.i64(0)
	e.i64(0)
	e.i32(n.version)
	e.i32(n.cversion)
	e.i32(0)
	e.i64(0)
	e.i32(int32(len(n.data)))
	e.i32(int32(nchildren))
	e.i64(1)
}

type dec struct {
	b   []byte
	bad bool
}

func (d *dec) need(n int) bool {
	if len(d.b) < n {
		d.bad = true
		return false
	}
	return true
}
func (d *dec) i32() int32 {
	if !d.need(4) {
		return 0
	}
	v := int32(binary.BigEndian.Uint32(d.b))
	d.b = d.b[4:]
	return v
}
func (d *dec) i64() int64 {
	if !d.need(8) {
		return 0
	}
	v := int64(binary.BigEndian.Uint64(d.b))
	d.b = d.b[8:]
	return v
}
func (d *dec) buf() []byte {
	n := d.i32()
	if n < 0 || !d.need(int(n)) {
		return nil
	}
	v := d.b[:n]
	d.b = d.b[n:]
	return v
}
func (d *dec) str() string { return string(d.buf()) }
func (d *dec) boolean() bool {
	if !d.need(1) {
		return false
	}
	v := d.b[0] != 0
	d.b = d.b[1:]
	return v
}

func (s *session) readPacket() ([]byte, error) {
	var l [4]byte
	if _, err := io.ReadFull(s.c, l[:]); err != nil {
		return nil, err
	}
	b := make([]byte, binary.BigEndian.Uint32(l[:]))
	_, err := io.ReadFull(s.c, b)
	return b, err
}

// writer is the only goroutine that writes to the connection: responses and watch
// events leave in the order they were queued.
func (s *session) writer() {
	for p := range s.out {
		out := binary.BigEndian.AppendUint32(nil, uint32(len(p)))
		out = append(out, p...)
		if _, err := s.c.Write(out); err != nil {
			return
		}
	}
}

func (s *session) send(p []byte) {
	if s.closed {
		return
	}
	select {
	case s.out <- p:
	default:
	}
}

func (z *FakeZK) children(path string) []string {
	var out []string
	prefix := path
	if !strings.HasSuffix(prefix, "/") {
		prefix += "/"
	}
	for p := range z.nodes {
		if p != path && strings.HasPrefix(p, prefix) && !strings.Contains(p[len(prefix):], "/") {
			out = append(out, p[len(prefix):])
		}
	}
	sort.Strings(out)
	return out
}

const (
	ErrNoNode           = -101
	ErrConnectionLoss   = -4
	ErrOperationTimeout = -7
	ErrSessionExpired   = -112
	evCreated           = 1
	evDeleted           = 2
	evDataChanged       = 3
	evChildrenChanged   = 4
)

func (s *session) serve() {
	z := s.zk
	defer func() {
		z.mu.Lock()
		s.close()
		z.mu.Unlock()
	}()
	p, err := s.readPacket()
	if err != nil {
		return
	}
	d := &dec{b: p}
	d.i32()
	d.i64()
	timeout := d.i32()
	sid := d.i64()
	d.buf()
	z.mu.Lock()
	e := &enc{}
	if sid != 0 && z.expired[sid] {
		// the session is gone: the client sees StateExpired and starts a new one
		e.i32(0)
		e.i32(0)
		e.i64(0)
		e.buf(make([]byte, 16))
		z.logf("connect sid=%d -> expired", sid)
		s.send(e.b)
		z.mu.Unlock()
		time.Sleep(time.Millisecond)
		return
	}
	if sid == 0 {
		z.nextSID++
		sid = z.nextSID
	}
	s.id = sid
	e.i32(0)
	e.i32(timeout)
	e.i64(sid)
	e.buf(make([]byte, 16))
	z.logf("connect -> sid=%d", sid)
	s.send(e.b)
	z.mu.Unlock()
	for {
		p, err := s.readPacket()
		if err != nil {
			return
		}
		d := &dec{b: p}
		xid, op := d.i32(), d.i32()
		path := ""
		watch := false
		if op == 3 || op == 4 || op == 12 {
			path = d.str()
			watch = d.boolean()
		}
		if z.Latency != nil && op != 11 {
			if lat := z.Latency(op, path); lat > 0 {
				time.Sleep(lat)
			}
		}
		z.mu.Lock()
		if s.closed {
			z.mu.Unlock()
			return
		}
		key := fmt.Sprintf("%d %s", op, path)
		if op != 11 {
			z.ReqCount[key]++
		}
		r := &enc{}
		code := int32(0)
		hdr := func(c int32) { code = c; r.i32(xid); r.i64(s.visibleZxid()); r.i32(c) }
		if fc, ok := z.FailNext[key]; ok && op != 11 {
			delete(z.FailNext, key)
			hdr(fc)
		} else {
			switch op {
			case 11: // ping
				hdr(0)
			case -11: // close
				hdr(0)
			case 101: // setWatches: re-register what the client still watches — and fire at once what changed
				// while it was away (ZooKeeper's DataTree.setWatches): the client passes the last
				// transaction id it has seen
				rel := d.i64()
				var fire [][3]interface{}
				for i, m := range []map[string]bool{s.dataW, s.existW, s.childW} {
					n := d.i32()
					for j := int32(0); j < n && !d.bad; j++ {
						p := d.str()
						nd, ok := z.nodes[p]
						switch {
						case i == 0 && !ok:
							fire = append(fire, [3]interface{}{int32(evDeleted), p, z.zxid})
						case i == 0 && nd.mzxid > rel:
							fire = append(fire, [3]interface{}{int32(evDataChanged), p, nd.mzxid})
						case i == 1 && ok:
							fire = append(fire, [3]interface{}{int32(evCreated), p, nd.mzxid})
						case i == 2 && !ok:
							fire = append(fire, [3]interface{}{int32(evDeleted), p, z.zxid})
						case i == 2 && nd.pzxid > rel:
							fire = append(fire, [3]interface{}{int32(evChildrenChanged), p, nd.pzxid})
						default:
							m[p] = true
						}
					}
				}
				// ZooKeeper processes these watches while it handles the request: the notifications leave
				// before the reply does (and, when held here, the reply's zxid must not run ahead of them)
				for _, f := range fire {
					s.eventAt(f[0].(int32), f[1].(string), f[2].(int64))
				}
				hdr(0)
			case 3: // exists
				if n, ok := z.nodes[path]; ok {
					hdr(0)
					r.stat(n, len(z.children(path)))
					if watch {
						s.dataW[path] = true
					}
				} else {
					hdr(ErrNoNode)
					if watch {
						s.existW[path] = true
					}
				}
			case 4: // getData
				if n, ok := z.nodes[path]; ok {
					hdr(0)
					r.buf(n.data)
					r.stat(n, len(z.children(path)))
					if watch {
						s.dataW[path] = true
					}
				} else {
					hdr(ErrNoNode)
				}
			case 12: // getChildren2
				if n, ok := z.nodes[path]; ok {
					ch := z.children(path)
					hdr(0)
					r.i32(int32(len(ch)))
					for _, c := range ch {
						r.str(c)
					}
					r.stat(n, len(ch))
					if watch {
						s.childW[path] = true
					}
				} else {
					hdr(ErrNoNode)
				}
			default:
				hdr(-6) // unimplemented
			}
		}
		if op != 11 {
			z.logf("s%d req op=%d %s w=%v -> %d", s.id, op, path, watch, code)
		}
		s.send(r.b)
		z.mu.Unlock()
		if op == -11 {
			return
		}
	}
}

// visibleZxid is the transaction id a reply to this session may carry. ZooKeeper sends a session's
// notifications and replies in one order, so a client never learns of a transaction id whose watch
// notification it has not been sent yet; with held notifications the reply must therefore not run ahead
// of the oldest one still held (the client hands this id back in setWatches after a reconnect, and the
// server decides from it which watches have to fire at once).
func (s *session) visibleZxid() int64 {
	v := s.zk.zxid
	for _, h := range s.zk.pending {
		if h.s == s && h.zxid-1 < v {
			v = h.zxid - 1
		}
	}
	return v
}

func (s *session) close() {
	if !s.closed {
		s.closed = true
		// what was held for this connection is lost with it
		keep := s.zk.pending[:0]
		for _, h := range s.zk.pending {
			if h.s != s {
				keep = append(keep, h)
			}
		}
		s.zk.pending = keep
		close(s.out)
		s.c.Close()
	}
}

func (s *session) event(typ int32, path string) { s.eventAt(typ, path, s.zk.zxid) }

// eventAt: zxid is the transaction that caused the notification (for one fired by setWatches: the one that changed
// the node back then, not the current one) — a reply must not carry a transaction id at or beyond it while it is held.
func (s *session) eventAt(typ int32, path string, zxid int64) {
	s.zk.logf("s%d ev %d %s", s.id, typ, path)
	e := &enc{}
	e.i32(-1)
	e.i64(-1)
	e.i32(0)
	e.i32(typ)
	e.i32(3) // SyncConnected
	e.str(path)
	if s.zk.Hold {
		s.zk.pending = append(s.zk.pending, heldEvent{s, e.b, fmt.Sprintf("%d %s", typ, path), zxid})
		return
	}
	s.send(e.b)
}

// SetHold switches holding of watch notifications on or off (under the lock the sessions read it with).
func (z *FakeZK) SetHold(on bool) {
	z.mu.Lock()
	z.Hold = on
	z.mu.Unlock()
}

// DeliverOne sends the oldest held notification; it reports whether there was one.
func (z *FakeZK) DeliverOne() bool {
	z.mu.Lock()
	defer z.mu.Unlock()
	if len(z.pending) == 0 {
		return false
	}
	h := z.pending[0]
	z.pending = z.pending[1:]
	z.logf("s%d deliver %s", h.s.id, h.desc)
	h.s.send(h.pkt)
	return true
}

// Pending is the number of held notifications.
func (z *FakeZK) Pending() int {
	z.mu.Lock()
	defer z.mu.Unlock()
	return len(z.pending)
}

func parent(p string) string {
	i := strings.LastIndex(p, "/")
	if i <= 0 {
		return "/"
	}
	return p[:i]
}

// Set creates or updates a node and fires the watches ZooKeeper would fire.
func (z *FakeZK) Set(path string, data []byte) {
	z.mu.Lock()
	defer z.mu.Unlock()
	z.zxid++
	z.logf("set %s %q", path, data)
	if n, ok := z.nodes[path]; ok {
		n.data = data
		n.version++
		n.mzxid = z.zxid
		for _, s := range z.sessions {
			if !s.closed && s.dataW[path] {
				delete(s.dataW, path)
				s.event(evDataChanged, path)
			}
		}
		return
	}
	z.nodes[path] = &node{data: data, mzxid: z.zxid, pzxid: z.zxid}
	pp := parent(path)
	if pn, ok := z.nodes[pp]; ok {
		pn.pzxid = z.zxid
		pn.cversion++
	}
	for _, s := range z.sessions {
		if s.closed {
			continue
		}
		if s.existW[path] {
			delete(s.existW, path)
			s.event(evCreated, path)
		}
		if s.childW[pp] {
			delete(s.childW, pp)
			s.event(evChildrenChanged, pp)
		}
	}
}

// Delete removes a node (and its subtree) and fires watches.
func (z *FakeZK) Delete(path string) {
	z.mu.Lock()
	defer z.mu.Unlock()
	if _, ok := z.nodes[path]; !ok {
		return
	}
	z.zxid++
	z.logf("delete %s", path)
	var sub []string
	for p := range z.nodes {
		if p == path || strings.HasPrefix(p, path+"/") {
			sub = append(sub, p)
		}
	}
	sort.Sort(sort.Reverse(sort.StringSlice(sub)))
	for _, p := range sub {
		delete(z.nodes, p)
		pp := parent(p)
		if pn, ok := z.nodes[pp]; ok {
			pn.pzxid = z.zxid
			pn.cversion++
		}
		for _, s := range z.sessions {
			if s.closed {
				continue
			}
			if s.dataW[p] {
				delete(s.dataW, p)
				s.event(evDeleted, p)
			}
			if s.childW[p] {
				delete(s.childW, p)
				s.event(evDeleted, p)
			}
			if s.childW[pp] {
				delete(s.childW, pp)
				s.event(evChildrenChanged, pp)
			}
		}
	}
}

// Exists reports whether the tree has the node (for oracles).
func (z *FakeZK) Exists(path string) bool {
	z.mu.Lock()
	defer z.mu.Unlock()
	_, ok := z.nodes[path]
	return ok
}

// Children lists a node's children and their data (for oracles).
func (z *FakeZK) Children(path string) map[string][]byte {
	z.mu.Lock()
	defer z.mu.Unlock()
	out := map[string][]byte{}
	for _, c := range z.children(path) {
		out[c] = z.nodes[path+"/"+c].data
	}
	return out
}

// DropConnections closes every live connection (the client reconnects and keeps its session).
func (z *FakeZK) DropConnections() {
	z.mu.Lock()
	defer z.mu.Unlock()
	z.logf("drop connections")
	for _, s := range z.sessions {
		s.close()
	}
}

// ExpireSessions closes every connection and forgets the sessions: the next connect
// with an old session id is told that it expired.
func (z *FakeZK) ExpireSessions() {
	z.mu.Lock()
	defer z.mu.Unlock()
	z.logf("expire sessions")
	for _, s := range z.sessions {
		if s.id != 0 {
			z.expired[s.id] = true
		}
		s.close()
	}
}

func (z *FakeZK) TraceLen() int {
	z.mu.Lock()
	defer z.mu.Unlock()
	return len(z.Log)
}

func (z *FakeZK) Count(op int32, path string) int {
	z.mu.Lock()
	defer z.mu.Unlock()
	return z.ReqCount[fmt.Sprintf("%d %s", op, path)]
}

func (z *FakeZK) SetFailNext(op int32, path string, code int32) {
	z.mu.Lock()
	defer z.mu.Unlock()
	z.FailNext[fmt.Sprintf("%d %s", op, path)] = code
}

func (z *FakeZK) Trace() []string {
	z.mu.Lock()
	defer z.mu.Unlock()
	return append([]string(nil), z.Log...)
}
