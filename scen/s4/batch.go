//go:build vscratch

package s4

import (
	"fmt"
	"reflect"

	"verif/sim/kern"
)

// C16: adversarial key multisets and Byzantine batch replies.

var collisionPair [2]string
var collisionSearched bool

// findCollision looks for two complex keys whose key-part hashes collide in the key
// set's 32-bit bucket space (a birthday search; once per process).
func findCollision(t reflect.Type) (string, string, bool) {
	if collisionSearched {
		return collisionPair[0], collisionPair[1], collisionPair[0] != ""
	}
	collisionSearched = true
	seen := map[uint32]string{}
	for i := 0; i < 2000000; i++ {
		// well-mixed strings: FNV-1a never collides on equal-length strings that differ in one byte
		x := uint64(i) * 0x9e3779b97f4a7c15
		x ^= x >> 29
		x *= 0xbf58476d1ce4e5b9
		s := fmt.Sprintf("%x", x)
		k := reflect.New(t.Elem())
		k.Elem().Field(0).FieldByName("A").SetString(s)
		h := k.MethodByName("ComputeComplexKeyHash").Call(nil)[0].MethodByName("MapKey").Call(nil)[0].Uint()
		if o, ok := seen[uint32(h)]; ok {
			collisionPair = [2]string{o, s}
			return o, s, true
		}
		seen[uint32(h)] = s
	}
	return "", "", false
}

func isComplexKeyPtr(t reflect.Type) bool {
	if t.Kind() != reflect.Ptr {
		return false
	}
	_, ok := t.MethodByName("ComplexKeyEquals")
	return ok
}

// adversarialKeys rewrites the key argument of a planned batch call: duplicates under
// key equality (complex keys that differ only in params), hash-colliding keys.
func (w *World) adversarialKeys(call *Call) {
	if !isBatchKeyed(call.Method) {
		return
	}
	ai := payloadIndex(call.Args)
	ka := call.Args[ai]
	var kt reflect.Type
	if ka.Kind() == reflect.Map {
		kt = ka.Type().Key()
	} else {
		kt = ka.Type().Elem()
	}
	addKey := func(k reflect.Value) {
		if ka.Kind() == reflect.Map {
			ka.SetMapIndex(k, w.g.NonNil(ka.Type().Elem()))
		} else {
			ka = reflect.Append(ka, k)
			call.Args[ai] = ka
		}
	}
	firstKey := func() reflect.Value {
		if ka.Kind() == reflect.Map {
			ks := sortedKeys(ka)
			if len(ks) == 0 {
				return reflect.Value{}
			}
			return ks[0]
		}
		if ka.Len() == 0 {
			return reflect.Value{}
		}
		return ka.Index(0)
	}
	switch w.c.Choose(5, "adv-keys") {
	case 4: // one key of a colliding pair is requested; the other one is what a Byzantine server will mention
		if isComplexKeyPtr(kt) {
			if a, b, ok := findCollision(kt); ok {
				k := reflect.New(kt.Elem())
				k.Elem().Field(0).FieldByName("A").SetString(a)
				if !keyIdentityIn(ka, k) {
					addKey(k)
				}
				call.collidingStranger = b
				w.c.Probe("stranger-in-a-requested-keys-hash-bucket-planned")
			}
		}
	case 1: // a duplicate under key equality
		fk := firstKey()
		if !fk.IsValid() {
			return
		}
		if isComplexKeyPtr(kt) {
			dup := deepCopy(fk)
			// same key part, different params: still the same key
			p := dup.Elem().FieldByName("Params")
			p.Set(w.g.NonNil(p.Type()))
			addKey(dup)
			w.c.Probe("complex-key-equal-up-to-params")
		} else if ka.Kind() == reflect.Slice {
			addKey(fk)
		} else {
			return
		}
		call.wantDupReject = true
		w.c.Probe("duplicate-key-planned")
	case 2: // two keys in the same hash bucket
		if isComplexKeyPtr(kt) {
			if a, b, ok := findCollision(kt); ok {
				for _, s := range []string{a, b} {
					k := reflect.New(kt.Elem())
					k.Elem().Field(0).FieldByName("A").SetString(s)
					if keyIdentityIn(ka, k) {
						continue
					}
					addKey(k)
				}
				w.c.Probe("hash-collision-bucket")
			}
		}
	}
	// the expectation follows the (new) arguments
	call.Expect = nil
	for _, a := range call.Args {
		e := deepCopy(a)
		fillDefaults(e)
		call.Expect = append(call.Expect, e)
	}
	call.MustReject = normaliseForExclusion(call)
	call.Desc = fmt.Sprintf("%s.%s%s", call.Res.Name, call.Method, renderArgs(call.Args))
}

func keyIdentityIn(ka reflect.Value, k reflect.Value) bool {
	id := keyIdentity(k)
	if ka.Kind() == reflect.Map {
		for _, o := range ka.MapKeys() {
			if keyIdentity(o) == id {
				return true
			}
		}
		return false
	}
	for i := 0; i < ka.Len(); i++ {
		if keyIdentity(ka.Index(i)) == id {
			return true
		}
	}
	return false
}

// byzantine rewrites a batch reply built by batchReply: drops a requested key or adds
// one that was never requested.
func (w *World) byzantine(call *Call, resp reflect.Value, keys []reflect.Value) {
	if w.c.Cfg["byz"] == "" || len(keys) == 0 {
		return
	}
	results := resp.Elem().FieldByName("Results")
	errs := resp.Elem().FieldByName("Errors")
	switch kern.Choose(4, "byzantine") {
	case 1: // subset
		k := keys[kern.Choose(len(keys), "byz-drop")]
		results.SetMapIndex(k, reflect.Value{})
		errs.SetMapIndex(k, reflect.Value{})
		w.c.Fault("byzantine-subset")
	case 2: // superset: a key nobody asked for
		g := &Gen{c: w.c, Benign: true, uniq: 5000 + call.ID}
		for try := 0; try < 5; try++ {
			extra := g.Key(results.Type().Key())
			if call.collidingStranger != "" && isComplexKeyPtr(results.Type().Key()) && try == 0 {
				// a key nobody asked for that lands in the hash bucket of one that was asked for
				extra = reflect.New(results.Type().Key().Elem())
				extra.Elem().Field(0).FieldByName("A").SetString(call.collidingStranger)
				w.c.Probe("byzantine-superset-colliding-with-a-requested-key")
			}
			dup := false
			for _, k := range keys {
				if keyIdentity(k) == keyIdentity(extra) {
					dup = true
				}
			}
			if dup {
				continue
			}
			if kern.Choose(2, "byz-extra-where") == 0 {
				results.SetMapIndex(extra, g.NonNil(results.Type().Elem()))
			} else {
				st := int32(500)
				errs.SetMapIndex(extra, reflect.ValueOf(genErrorResponseLite(st)))
			}
			call.setSuperset()
			w.c.Fault("byzantine-superset")
			break
		}
	}
}

//go:norace
func (c *Call) setSuperset() { c.superset = true }
