//go:build vscratch

package s4

import (
	"fmt"
	"math"
	"reflect"
	"sort"
	"strings"
)

// deepEq is the comparison the property texts prescribe, written without any code of
// the library under test: structural equality in which NaN matches NaN, a nil and an
// empty collection or byte string are the same value, pointer-keyed maps are matched
// by the pointee's structural equality. It returns the path of the first difference.
func deepEq(a, b reflect.Value, path string) (bool, string) {
	if !a.IsValid() || !b.IsValid() {
		if a.IsValid() == b.IsValid() {
			return true, ""
		}
		return false, path + ": one side missing"
	}
	if a.Type() != b.Type() {
		return false, fmt.Sprintf("%s: type %s vs %s", path, a.Type(), b.Type())
	}
	switch a.Kind() {
	case reflect.Ptr, reflect.Interface:
		if a.IsNil() || b.IsNil() {
			if a.IsNil() && b.IsNil() {
				return true, ""
			}
			// a nil and an empty collection are the same value, also behind a pointer
			x := a
			if a.IsNil() {
				x = b
			}
			if x.Kind() == reflect.Ptr && (x.Elem().Kind() == reflect.Map || x.Elem().Kind() == reflect.Slice) && x.Elem().Len() == 0 {
				return true, ""
			}
			return false, fmt.Sprintf("%s: nil vs non-nil (%s)", path, render(x))
		}
		return deepEq(a.Elem(), b.Elem(), path)
	case reflect.Struct:
		if isCreatedEntity(a.Type()) {
			return createdEq(a, b, path)
		}
		for i := 0; i < a.NumField(); i++ {
			if !a.Type().Field(i).IsExported() {
				continue
			}
			if ok, p := deepEq(a.Field(i), b.Field(i), path+"."+a.Type().Field(i).Name); !ok {
				return false, p
			}
		}
		return true, ""
	case reflect.Slice, reflect.Array:
		if a.Len() != b.Len() {
			return false, fmt.Sprintf("%s: length %d vs %d", path, a.Len(), b.Len())
		}
		for i := 0; i < a.Len(); i++ {
			if ok, p := deepEq(a.Index(i), b.Index(i), fmt.Sprintf("%s[%d]", path, i)); !ok {
				return false, p
			}
		}
		return true, ""
	case reflect.Map:
		if a.Len() != b.Len() {
			return false, fmt.Sprintf("%s: map size %d vs %d (%s vs %s)", path, a.Len(), b.Len(), render(a), render(b))
		}
		for _, k := range a.MapKeys() {
			var bv reflect.Value
			if k.Kind() == reflect.Ptr {
				for _, bk := range b.MapKeys() {
					if ok, _ := deepEq(k, bk, ""); ok {
						bv = b.MapIndex(bk)
						break
					}
				}
			} else {
				bv = b.MapIndex(k)
			}
			if !bv.IsValid() {
				return false, fmt.Sprintf("%s: key %s missing on one side (%s vs %s)", path, render(k), render(a), render(b))
			}
			if ok, p := deepEq(a.MapIndex(k), bv, fmt.Sprintf("%s[%s]", path, render(k))); !ok {
				return false, p
			}
		}
		return true, ""
	case reflect.Float32, reflect.Float64:
		x, y := a.Float(), b.Float()
		if x == y || (math.IsNaN(x) && math.IsNaN(y)) {
			return true, ""
		}
		return false, fmt.Sprintf("%s: %v vs %v", path, x, y)
	case reflect.String:
		if a.String() == b.String() {
			return true, ""
		}
		return false, fmt.Sprintf("%s: %q vs %q", path, a.String(), b.String())
	case reflect.Bool:
		if a.Bool() == b.Bool() {
			return true, ""
		}
	case reflect.Int, reflect.Int8, reflect.Int16, reflect.Int32, reflect.Int64:
		if a.Int() == b.Int() {
			return true, ""
		}
	case reflect.Uint, reflect.Uint8, reflect.Uint16, reflect.Uint32, reflect.Uint64:
		if a.Uint() == b.Uint() {
			return true, ""
		}
	default:
		return true, ""
	}
	return false, fmt.Sprintf("%s: %s vs %s", path, render(a), render(b))
}

// createdDefault is the status a created entity with Status 0 is expected to come back with
// (set around the comparison of one call's results).
var createdDefault = 201

func isCreatedEntity(t reflect.Type) bool {
	return strings.HasPrefix(t.Name(), "CreatedEntity[")
}

// createdEq: "created id and status" (C02) — the Location field is derived by the
// server from the request path and is not compared; a zero status means "default".
func createdEq(sent, got reflect.Value, path string) (bool, string) {
	if ok, p := deepEq(sent.FieldByName("Id"), got.FieldByName("Id"), path+".Id"); !ok {
		return false, p
	}
	s, g := sent.FieldByName("Status").Int(), got.FieldByName("Status").Int()
	if s == 0 {
		s = int64(createdDefault) // 201, or what the resource set through the request context
	}
	if g == 0 {
		g = 201
	}
	if s != g {
		return false, fmt.Sprintf("%s.Status: %d vs %d", path, s, g)
	}
	return true, ""
}

// render prints a value for messages and case keys (deterministic: maps sorted).
func render(v reflect.Value) string {
	if !v.IsValid() {
		return "<none>"
	}
	switch v.Kind() {
	case reflect.Ptr, reflect.Interface:
		if v.IsNil() {
			return "nil"
		}
		return "&" + render(v.Elem())
	case reflect.Struct:
		var parts []string
		for i := 0; i < v.NumField(); i++ {
			if !v.Type().Field(i).IsExported() {
				continue
			}
			f := v.Field(i)
			if (f.Kind() == reflect.Ptr || f.Kind() == reflect.Map || f.Kind() == reflect.Slice) && f.IsNil() {
				continue
			}
			parts = append(parts, v.Type().Field(i).Name+":"+render(f))
		}
		return "{" + strings.Join(parts, " ") + "}"
	case reflect.Slice, reflect.Array:
		if v.Type().Elem().Kind() == reflect.Uint8 {
			b := make([]byte, v.Len())
			for i := range b {
				b[i] = byte(v.Index(i).Uint())
			}
			return fmt.Sprintf("bytes%q", b)
		}
		var parts []string
		for i := 0; i < v.Len(); i++ {
			parts = append(parts, render(v.Index(i)))
		}
		return "[" + strings.Join(parts, " ") + "]"
	case reflect.Map:
		var parts []string
		for _, k := range v.MapKeys() {
			parts = append(parts, render(k)+":"+render(v.MapIndex(k)))
		}
		sort.Strings(parts)
		return "map[" + strings.Join(parts, " ") + "]"
	case reflect.String:
		return fmt.Sprintf("%q", v.String())
	case reflect.Float32, reflect.Float64:
		return fmt.Sprintf("%v", v.Float())
	case reflect.Bool:
		return fmt.Sprintf("%v", v.Bool())
	case reflect.Int, reflect.Int8, reflect.Int16, reflect.Int32, reflect.Int64:
		return fmt.Sprintf("%d", v.Int())
	case reflect.Uint, reflect.Uint8, reflect.Uint16, reflect.Uint32, reflect.Uint64:
		return fmt.Sprintf("%d", v.Uint())
	}
	return "?"
}

// deepCopy clones a value (so that a later mutation by the code under test is visible).
func deepCopy(v reflect.Value) reflect.Value {
	if !v.IsValid() {
		return v
	}
	switch v.Kind() {
	case reflect.Ptr:
		if v.IsNil() {
			return v
		}
		p := reflect.New(v.Type().Elem())
		p.Elem().Set(deepCopy(v.Elem()))
		return p
	case reflect.Interface:
		if v.IsNil() {
			return v
		}
		n := reflect.New(v.Type()).Elem()
		n.Set(deepCopy(v.Elem()))
		return n
	case reflect.Struct:
		n := reflect.New(v.Type()).Elem()
		n.Set(v)
		for i := 0; i < v.NumField(); i++ {
			if v.Type().Field(i).IsExported() {
				n.Field(i).Set(deepCopy(v.Field(i)))
			}
		}
		return n
	case reflect.Slice:
		if v.IsNil() {
			return v
		}
		n := reflect.MakeSlice(v.Type(), v.Len(), v.Len())
		for i := 0; i < v.Len(); i++ {
			n.Index(i).Set(deepCopy(v.Index(i)))
		}
		return n
	case reflect.Map:
		if v.IsNil() {
			return v
		}
		n := reflect.MakeMap(v.Type())
		for _, k := range v.MapKeys() {
			n.SetMapIndex(deepCopy(k), deepCopy(v.MapIndex(k)))
		}
		return n
	}
	// scalars: a fresh, independent value (v may be addressable and shared)
	n := reflect.New(v.Type()).Elem()
	n.Set(v)
	return n
}

// fillDefaults applies "decoding always fills the schema default into a defaulted
// field the original left unset" to a copy of what was sent, using the generated
// default constructors listed in the glue file.
func fillDefaults(v reflect.Value) {
	if !v.IsValid() {
		return
	}
	switch v.Kind() {
	case reflect.Ptr, reflect.Interface:
		if !v.IsNil() {
			fillDefaults(v.Elem())
		}
	case reflect.Struct:
		if mk, ok := Defaults[v.Type()]; ok && v.CanSet() {
			d := reflect.ValueOf(mk()).Elem()
			for i := 0; i < v.NumField(); i++ {
				f := v.Field(i)
				if f.Kind() == reflect.Ptr && f.IsNil() && !d.Field(i).IsNil() {
					f.Set(d.Field(i))
				}
			}
		}
		for i := 0; i < v.NumField(); i++ {
			if v.Type().Field(i).IsExported() {
				fillDefaults(v.Field(i))
			}
		}
	case reflect.Slice, reflect.Array:
		for i := 0; i < v.Len(); i++ {
			fillDefaults(v.Index(i))
		}
	case reflect.Map:
		for _, k := range v.MapKeys() {
			e := v.MapIndex(k)
			if e.Kind() == reflect.Ptr {
				fillDefaults(e)
			}
		}
	}
}
