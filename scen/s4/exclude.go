//go:build vscratch

package s4

import (
	"reflect"
	"strings"
)

// The reference model of read-only / create-only exclusion (C07), written against the
// property text: an encoder configured with a spec omits exactly the values at
// matching paths; a partial update that touches such a field must fail on the client.

func goName(jsonName string) string {
	if jsonName == "" {
		return jsonName
	}
	return strings.ToUpper(jsonName[:1]) + jsonName[1:]
}

// stripPath zeroes the value at path (segments are schema field names, "*" = every
// array item / map value) inside record value v. It reports whether anything non-zero
// was removed.
func stripPath(v reflect.Value, path []string) bool {
	for v.IsValid() && (v.Kind() == reflect.Ptr || v.Kind() == reflect.Interface) {
		if v.IsNil() {
			return false
		}
		v = v.Elem()
	}
	if !v.IsValid() || len(path) == 0 {
		return false
	}
	seg := path[0]
	switch v.Kind() {
	case reflect.Struct:
		f := v.FieldByName(goName(seg))
		if !f.IsValid() {
			return false
		}
		if len(path) == 1 {
			if f.IsZero() || !f.CanSet() {
				return false
			}
			f.Set(reflect.Zero(f.Type()))
			return true
		}
		return stripPath(f, path[1:])
	case reflect.Slice:
		if seg != "*" {
			return false
		}
		any := false
		for i := 0; i < v.Len(); i++ {
			if stripPath(v.Index(i), path[1:]) {
				any = true
			}
		}
		return any
	case reflect.Map:
		if seg != "*" {
			return false
		}
		any := false
		for _, k := range v.MapKeys() {
			e := v.MapIndex(k)
			if e.Kind() == reflect.Ptr {
				if stripPath(e, path[1:]) {
					any = true
				}
			}
		}
		return any
	}
	return false
}

// applyToPatch applies exclusion paths to a *_PartialUpdate value: it returns true
// when the patch touches an excluded field directly (set, delete or nested patch of
// the excluded leaf) — the client must refuse it — and otherwise strips excluded
// sub-paths out of wholesale $set values, as the encoder does.
func applyToPatch(p reflect.Value, paths [][]string) (mustReject bool) {
	for p.Kind() == reflect.Ptr {
		if p.IsNil() {
			return false
		}
		p = p.Elem()
	}
	set := p.FieldByName("Set_Fields")
	del := p.FieldByName("Delete_Fields")
	for _, path := range paths {
		name := goName(path[0])
		if path[0] == "*" {
			continue
		}
		if len(path) == 1 {
			if set.IsValid() {
				if f := set.FieldByName(name); f.IsValid() && !f.IsZero() {
					mustReject = true
				}
			}
			if del.IsValid() {
				if f := del.FieldByName(name); f.IsValid() && f.Kind() == reflect.Bool && f.Bool() {
					mustReject = true
				}
			}
			if f := p.FieldByName(name); f.IsValid() && f.Kind() == reflect.Ptr && !f.IsNil() && isPartialUpdate(f.Type().Elem()) {
				mustReject = true
			}
			continue
		}
		// deeper path: a wholesale set of the first segment is stripped, a nested patch is checked
		if set.IsValid() {
			if f := set.FieldByName(name); f.IsValid() && !f.IsZero() {
				stripPath(f, path[1:])
			}
		}
		if f := p.FieldByName(name); f.IsValid() && f.Kind() == reflect.Ptr && !f.IsNil() && isPartialUpdate(f.Type().Elem()) {
			if applyToPatch(f, [][]string{path[1:]}) {
				mustReject = true
			}
		}
	}
	return mustReject
}

func splitPaths(specs ...[]string) [][]string {
	var out [][]string
	for _, s := range specs {
		for _, p := range s {
			out = append(out, strings.Split(strings.TrimPrefix(p, "/"), "/"))
		}
	}
	return out
}

// excludedFor says which exclusion list applies to a client method of rd.
func excludedFor(rd *ResDesc, method string) [][]string {
	switch method {
	case "Create", "BatchCreate":
		return splitPaths(rd.ReadOnly)
	case "Update", "BatchUpdate", "PartialUpdate", "BatchPartialUpdate":
		return splitPaths(rd.ReadOnly, rd.CreateOnly)
	}
	return nil
}

// normaliseForExclusion rewrites the expected (resource-side) view of the entity
// argument(s) of a call and reports whether the client must refuse the call.
func normaliseForExclusion(call *Call) (mustReject bool) {
	paths := excludedFor(call.Res, call.Method)
	if len(paths) == 0 || len(call.Expect) == 0 {
		return false
	}
	// the entity argument: the last slice / map (batch) or the last pointer that is not a parameter struct
	ei := len(call.Expect) - 1
	for i := len(call.Expect) - 1; i >= 0; i-- {
		t := call.Expect[i].Type().String()
		if !strings.HasSuffix(t, "Params") {
			ei = i
			break
		}
	}
	ent := call.Expect[ei]
	each := func(f func(v reflect.Value)) {
		switch ent.Kind() {
		case reflect.Slice:
			for i := 0; i < ent.Len(); i++ {
				f(ent.Index(i))
			}
		case reflect.Map:
			for _, k := range ent.MapKeys() {
				f(ent.MapIndex(k))
			}
		default:
			f(ent)
		}
	}
	each(func(v reflect.Value) {
		t := v.Type()
		for t.Kind() == reflect.Ptr {
			t = t.Elem()
		}
		if isPartialUpdate(t) {
			if applyToPatch(v, paths) {
				mustReject = true
			}
			return
		}
		for _, p := range paths {
			stripPath(v, p)
		}
	})
	return mustReject
}
