//go:build vscratch

package s4

import (
	"fmt"
	"net/http"
	"reflect"
	"strings"

	"verif/sim/harness"
)

// C05: exchange-level routing clauses.

// restliMethodOf maps a generated client method to what filters must see.
func restliMethodOf(m string) (method, finder, action string) {
	lowerFirst := func(s string) string {
		if s == "" {
			return s
		}
		return strings.ToLower(s[:1]) + s[1:]
	}
	switch {
	case strings.HasPrefix(m, "FindBy"):
		return "finder", lowerFirst(strings.TrimPrefix(m, "FindBy")), ""
	case strings.HasSuffix(m, "Action"):
		return "action", "", lowerFirst(strings.TrimSuffix(m, "Action"))
	}
	names := map[string]string{"Get": "get", "Create": "create", "Update": "update", "PartialUpdate": "partial_update", "Delete": "delete",
		"GetAll": "get_all", "BatchGet": "batch_get", "BatchCreate": "batch_create", "BatchUpdate": "batch_update",
		"BatchPartialUpdate": "batch_partial_update", "BatchDelete": "batch_delete"}
	return names[m], "", ""
}

func nKeyArgs(call *Call) int {
	n := 0
	for _, a := range call.Args {
		if isKeyType(a.Type()) {
			n++
		}
	}
	return n
}

// expectedFilterInfo is what every PreRequest must report for a routed call.
func expectedFilterInfo(call *Call) string {
	m, f, a := restliMethodOf(call.Method)
	s := fmt.Sprintf("method=%s nsegs=%d nkeys=%d", m, call.Res.Depth, nKeyArgs(call))
	if f != "" {
		s += " finder=" + f
	}
	if a != "" {
		s += " action=" + a
	}
	return s
}

// checkFilters: PreRequest in registration order before the method, PostRequest in
// reverse order after success, none for an unrouted request.
func checkFilters(c *harness.Ctx, w *World, call *Call, where string, routed bool, succeeded bool) {
	if w.nfilt == 0 || w.viewFilter {
		return
	}
	var want []string
	if routed {
		stop := w.nfilt
		if w.filtFail >= 0 {
			stop = w.filtFail + 1
		}
		for i := 0; i < stop; i++ {
			want = append(want, fmt.Sprintf("pre%d:%s", i, expectedFilterInfo(call)))
		}
		if succeeded && w.filtFail < 0 {
			for i := w.nfilt - 1; i >= 0; i-- {
				want = append(want, fmt.Sprintf("post%d:", i))
			}
		}
	}
	var got []string
	for _, f := range call.Filt {
		got = append(got, fmt.Sprintf("%s%d:%s", f.Phase, f.Filter, f.Info))
	}
	if strings.Join(want, " | ") != strings.Join(got, " | ") {
		c.Fail("C05", "filters", "filters:"+filterSig(want, got), "%s: filter calls differ (routed=%v succeeded=%v failing filter=%d)\n expected: %v\n observed: %v", where, routed, succeeded, w.filtFail, want, got)
	}
	if len(want) > 0 {
		c.Probe("filters-checked")
	}
}

func filterSig(want, got []string) string {
	switch {
	case len(got) > len(want):
		return "extra-call"
	case len(got) < len(want):
		return "missing-call"
	}
	for i := range want {
		if want[i] != got[i] {
			if strings.SplitN(want[i], ":", 2)[0] != strings.SplitN(got[i], ":", 2)[0] {
				return "order"
			}
			return "context"
		}
	}
	return "?"
}

// ---- damaged paths (negative space) ------------------------------------------------

// anyClientError as wantStatus: any 4xx will do
const anyClientError = -4

// damagePath rewrites the request path of a well-formed call into one that must not
// be routed, and returns the status the server has to answer with.
func damagePath(c *harness.Ctx, w *World, call *Call) {
	kind := c.Choose(4, "path-damage")
	if c.Choose(5, "empty-segment") == 4 {
		kind = 6 + c.Choose(3, "empty-segment-kind")
	}
	if w.mount == "prefix" {
		switch c.Choose(6, "glue-prefix") {
		case 3:
			kind = 4
		case 5:
			kind = 5
		}
	}
	call.Mutate = func(req *http.Request, e *Exchange) {
		p := req.URL.EscapedPath()
		prefix := ""
		if w.mount == "prefix" {
			// keep the mount prefix intact: it is the resource path that is damaged
			i := strings.Index(p, "/"+strings.Split(call.Res.Path, "/")[0])
			if i > 0 {
				prefix, p = p[:i], p[i:]
			}
		}
		segs := strings.Split(strings.TrimPrefix(p, "/"), "/")
		m, _, _ := restliMethodOf(call.Method)
		entityLevel := false
		switch m {
		case "get", "update", "partial_update", "delete":
			entityLevel = call.Res.Kind == "collection"
		case "action":
			// entity-level actions carry a key as last segment
			entityLevel = call.Res.Kind == "collection" && len(segs) == 2*call.Res.Depth
		}
		name := ""
		switch kind {
		case 0: // unregistered resource name
			segs[0] = "nosuchresource"
			call.wantStatus, name = 404, "damage-unknown-resource"
		case 1: // extra unknown sub-resource segment
			if call.Res.Kind == "collection" && !entityLevel {
				segs = append(segs, "somekey", "nosuchsub")
			} else {
				segs = append(segs, "nosuchsub")
			}
			call.wantStatus, name = 404, "damage-unknown-subresource"
		case 2: // drop the key of an entity-level method
			if entityLevel {
				segs = segs[:len(segs)-1]
				call.wantStatus, name = 400, "damage-dropped-key"
			}
		case 4: // the mount prefix glued to the resource name without a separator: not below the prefix
			if prefix != "" {
				call.wantStatus, name = 404, "damage-glued-prefix"
			}
		case 6: // a trailing slash: an empty last segment names neither a resource nor a key
			call.wantStatus, name = anyClientError, "damage-trailing-slash"
		case 7: // an empty segment in the middle ("//")
			if len(segs) >= 2 && w.mount != "mux" {
				call.wantStatus, name = anyClientError, "damage-empty-segment"
			}
		case 8: // an extra leading slash
			if w.mount != "mux" && prefix == "" {
				call.wantStatus, name = anyClientError, "damage-leading-double-slash"
			}
		case 5: // the mount prefix somewhere in the middle of the path: the path is not below the prefix
			if prefix != "" {
				call.wantStatus, name = 404, "damage-prefix-in-the-middle"
			}
		case 3: // add a key to a method that takes none
			if call.Res.Kind == "collection" && !entityLevel {
				segs = append(segs, "extrakey")
				call.wantStatus, name = 400, "damage-added-key"
			} else if call.Res.Kind != "collection" {
				// simple resources / action sets: the extra segment names an unknown sub-resource
				segs = append(segs, "extrakey")
				call.wantStatus, name = 404, "damage-extra-segment-simple"
			}
		}
		if name == "" {
			return
		}
		np := prefix + "/" + strings.Join(segs, "/")
		if name == "damage-glued-prefix" {
			np = prefix + strings.Join(segs, "/")
		}
		if name == "damage-prefix-in-the-middle" {
			np = "/v9" + np
		}
		switch name {
		case "damage-trailing-slash":
			np += "/"
		case "damage-empty-segment":
			np = prefix + "/" + segs[0] + "//" + strings.Join(segs[1:], "/")
		case "damage-leading-double-slash":
			np = "/" + np
		}
		u := *req.URL
		u.RawPath = ""
		u.Path = ""
		nu, err := u.Parse(np + func() string {
			if req.URL.RawQuery != "" {
				return "?" + req.URL.RawQuery
			}
			return ""
		}())
		if err != nil {
			call.wantStatus = 0
			return
		}
		req.URL = nu
		e.Faults = append(e.Faults, name)
		c.Fault(name)
	}
}

func checkDamagedPath(c *harness.Ctx, w *World, call *Call, where string) bool {
	if call.wantStatus == 0 || len(call.Exchanges) == 0 {
		return false
	}
	e := call.Exchanges[0]
	damaged := ""
	for _, f := range e.Faults {
		if strings.HasPrefix(f, "damage-") {
			damaged = f
		}
	}
	if damaged == "" {
		return false
	}
	c.Probe("negative-space-request-checked")
	if methodClass(call, w) == "action" && call.Res.Kind == "collection" && (damaged == "damage-added-key" || damaged == "damage-dropped-key" || damaged == "damage-trailing-slash") {
		// (a trailing slash after the collection's name is an added - empty - key)
		// one defect, several faces (dispatched / filters ran / 500 instead of 400): one signature
		if len(call.Inv) > 0 || len(call.Filt) > 0 || (e.Status != call.wantStatus && !(call.wantStatus == anyClientError && e.Status >= 400 && e.Status < 500)) {
			c.Fail("C05", "action-entity-presence", "action-entity-presence-not-validated", "%s: %s (%s): the presence of an entity key does not match what the action requires, yet invocations=%d filter calls=%d status=%d (expected: 400, nothing runs)", where, damaged, firstLine(e.ReqBytes), len(call.Inv), len(call.Filt), e.Status)
		}
		return true
	}
	if len(call.Inv) > 0 {
		c.Fail("C05", "unrouted-dispatched", "unrouted-dispatched:"+damaged+":"+call.Res.Kind+"."+methodClass(call, w), "%s: a request that must not be routed (%s: %s) reached resource code %s", where, damaged, firstLine(e.ReqBytes), call.Inv[0].Field)
		return true
	}
	if len(call.Filt) > 0 {
		c.Fail("C05", "unrouted-filtered", "unrouted-filtered:"+damaged+":"+call.Res.Kind+"."+methodClass(call, w), "%s: filters ran for a request that is not routed (%s: %s): %v", where, damaged, firstLine(e.ReqBytes), call.Filt)
		return true
	}
	if call.wantStatus == anyClientError {
		// which 4xx is not fixed by the property for these shapes (an empty segment is an unknown resource to one
		// reading and an empty key to another); with a ServeMux in front a redirect may come back instead
		if (e.Status >= 400 && e.Status < 500) || (w.mount == "mux" && e.Status >= 300 && e.Status < 400) {
			return true
		}
		c.Fail("C05", "unrouted-status", fmt.Sprintf("unrouted-status:%s:%s.%s:%d", damaged, call.Res.Kind, methodClass(call, w), e.Status), "%s: %s (%s) was answered %d, expected a 4xx; body %q", where, damaged, firstLine(e.ReqBytes), e.Status, clip(e.RespBody, 200))
		return true
	}
	if e.Status != call.wantStatus {
		c.Fail("C05", "unrouted-status", fmt.Sprintf("unrouted-status:%s:%s.%s:%d!=%d", damaged, call.Res.Kind, methodClass(call, w), e.Status, call.wantStatus), "%s: %s (%s) was answered %d, expected %d; body %q", where, damaged, firstLine(e.ReqBytes), e.Status, call.wantStatus, clip(e.RespBody, 200))
		return true
	}
	return true
}

var _ = reflect.TypeOf
