//go:build vscratch

package s4

import (
	"bytes"
	"fmt"
	"net/http"
	"reflect"
	"strings"

	"verif/sim/harness"
	"verif/sim/kern"
)

// C04, exchange-level sentence: one damage per exchange, on the request or on the
// response, placed at the positions where peer-controlled bytes are parsed.

var metaBytes = []string{"(", ")", ",", ":", "'", "%", "List(", "%2", "%ZZ", "\"", "{", "}", "[", "]", "\\", "$", "&", "=", "?", "/", "~", "\x00", "((", "))", "(:", ":)", ",,", "''", "%28", "%29", "null", "-", "e", ".",
	// appended later (indices of the earlier ones stay): delimiters that balance by count but close before they open
	")(", "))((", ")a(", "(x:1))("}

func damageBytes(b []byte, lo, hi int, tag string) ([]byte, string) {
	if hi > len(b) {
		hi = len(b)
	}
	if hi <= lo {
		return b, ""
	}
	pos := lo + kern.Choose(hi-lo+1, tag+"-pos")
	switch kern.Choose(6, tag+"-kind") {
	case 5: // transpose two bytes (a reordering proxy: "(a:1)" becomes ")a:1(" - balanced by count, wrong by order)
		if pos >= hi {
			pos = hi - 1
		}
		other := lo + kern.Choose(hi-lo, tag+"-swap")
		if other == pos || b[other] == b[pos] {
			return b, ""
		}
		out := append([]byte(nil), b...)
		out[pos], out[other] = out[other], out[pos]
		return out, fmt.Sprintf("swap@%d<->%d", pos-lo, other-lo)
	case 0: // truncate
		return append([]byte(nil), b[:pos]...), fmt.Sprintf("truncate@%d", pos-lo)
	case 1: // insert a metacharacter
		m := metaBytes[kern.Choose(len(metaBytes), tag+"-meta")]
		out := append(append(append([]byte(nil), b[:pos]...), m...), b[pos:]...)
		return out, fmt.Sprintf("insert%q@%d", m, pos-lo)
	case 2: // flip / replace one byte
		if pos >= hi {
			pos = hi - 1
		}
		out := append([]byte(nil), b...)
		m := metaBytes[kern.Choose(len(metaBytes), tag+"-meta")]
		out[pos] = m[0]
		return out, fmt.Sprintf("replace%q@%d", m[:1], pos-lo)
	case 3: // delete a byte
		if pos >= hi {
			pos = hi - 1
		}
		out := append(append([]byte(nil), b[:pos]...), b[pos+1:]...)
		return out, fmt.Sprintf("delete@%d", pos-lo)
	default: // duplicate a span
		end := pos + 1 + kern.Choose(4, tag+"-span")
		if end > hi {
			end = hi
		}
		out := append(append(append([]byte(nil), b[:end]...), b[pos:end]...), b[end:]...)
		return out, fmt.Sprintf("dup@%d+%d", pos-lo, end-pos)
	}
}

func rebuildRequest(method, uri string, hdr http.Header, body []byte) []byte {
	var buf bytes.Buffer
	fmt.Fprintf(&buf, "%s %s HTTP/1.1\r\n", method, uri)
	for _, k := range sortedHeaderKeys(hdr) {
		for _, v := range hdr[k] {
			if k == "Content-Length" {
				v = fmt.Sprint(len(body))
			}
			fmt.Fprintf(&buf, "%s: %s\r\n", k, v)
		}
	}
	buf.WriteString("\r\n")
	buf.Write(body)
	return buf.Bytes()
}

func sortedHeaderKeys(h http.Header) []string {
	var ks []string
	for k := range h {
		ks = append(ks, k)
	}
	for i := 1; i < len(ks); i++ {
		for j := i; j > 0 && ks[j] < ks[j-1]; j-- {
			ks[j], ks[j-1] = ks[j-1], ks[j]
		}
	}
	return ks
}

// hostile arms one damage on the call's request or response.
func hostile(c *harness.Ctx, call *Call) {
	where := c.Choose(5, "hostile-where")
	switch where {
	case 0, 1, 2: // request: path, query, body
		call.MutateWire = func(wire []byte, e *Exchange) []byte {
			method, uri, hdr, body := parseWire(wire)
			path, query := uri, ""
			if i := strings.IndexByte(uri, '?'); i >= 0 {
				path, query = uri[:i], uri[i+1:]
			}
			what, how := "", ""
			switch {
			case where == 0 || (where == 1 && query == "") || (where == 2 && len(body) == 0 && query == ""):
				// keep the resource name: damage lands in the keys
				lo := strings.IndexByte(path[1:], '/') + 2
				if lo < 2 || lo > len(path) {
					lo = len(path)
				}
				var nb []byte
				nb, how = damageBytes([]byte(path), lo, len(path), "dpath")
				path, what = string(nb), "damage-path"
			case where == 1 || (where == 2 && len(body) == 0):
				var nb []byte
				nb, how = damageBytes([]byte(query), 0, len(query), "dquery")
				query, what = string(nb), "damage-query"
			default:
				body, how = damageBytes(body, 0, len(body), "dbody")
				what = "damage-body"
			}
			if how == "" {
				return wire
			}
			// the damaged target must still be a request line net/http can frame
			for _, bad := range []string{" ", "\r", "\n", "\x00", "#"} {
				path = strings.ReplaceAll(path, bad, "%00")
				query = strings.ReplaceAll(query, bad, "%00")
			}
			nuri := path
			if query != "" || strings.Contains(uri, "?") {
				nuri += "?" + query
			}
			e.Faults = append(e.Faults, what+":"+how)
			c.Fault(what)
			return rebuildRequest(method, nuri, hdr, body)
		}
	default: // response: body or id header
		call.MutateResp = func(hdr http.Header, body []byte, e *Exchange) (http.Header, []byte) {
			if id := hdr.Get("X-Restli-Id"); id != "" && where == 3 {
				nb, how := damageBytes([]byte(id), 0, len(id), "dresp-id")
				if how != "" {
					s := strings.NewReplacer("\x00", "%00", "\r", "", "\n", "").Replace(string(nb))
					hdr.Set("X-Restli-Id", s)
					e.Faults = append(e.Faults, "damage-resp-id:"+how)
					c.Fault("damage-resp-id")
				}
				return hdr, body
			}
			if len(body) == 0 {
				return hdr, body
			}
			nb, how := damageBytes(body, 0, len(body), "dresp")
			if how == "" {
				return hdr, body
			}
			hdr.Set("Content-Length", fmt.Sprint(len(nb)))
			e.RespBodySent = nb
			e.Faults = append(e.Faults, "damage-resp-body:"+how)
			c.Fault("damage-resp-body")
			return hdr, nb
		}
	}
}

func damageOf(call *Call) (kind string, onRequest bool) {
	for _, e := range call.Exchanges {
		for _, f := range e.Faults {
			// only the hostile-network damages (the routing scenario has its own "damage-*" kinds)
			if strings.HasPrefix(f, "damage-resp-body:") || strings.HasPrefix(f, "damage-resp-id:") {
				return strings.SplitN(f, ":", 2)[0], false
			}
			if strings.HasPrefix(f, "damage-path:") || strings.HasPrefix(f, "damage-query:") || strings.HasPrefix(f, "damage-body:") {
				return strings.SplitN(f, ":", 2)[0], true
			}
		}
	}
	return "", false
}

// checkHostile is the C04 oracle; it reports whether the call was a damaged one.
func checkHostile(c *harness.Ctx, w *World, call *Call, where string) bool {
	kind, onReq := damageOf(call)
	if kind == "" {
		return false
	}
	e := call.Exchanges[0]
	detail := strings.Join(e.Faults, ",")
	if call.Panicked != "" {
		c.Fail("C04", "client-panic", "client-panic:"+kind+":"+topFrame(call.Panicked), "%s: the client call panicked in the caller's goroutine on a malformed response (%s): %s", where, detail, call.Panicked)
		return true
	}
	if e.Panic != "" {
		c.Fail("C04", "server-panic", "server-panic:"+kind+":"+sigOfPanic(e.Panic), "%s: a panic escaped ServeHTTP on a malformed request (%s; %s): %s", where, detail, firstLine(e.ReqBytes), e.Panic)
		return true
	}
	if onReq {
		recovered := strings.Contains(string(e.RespBody), "goroutine ") || strings.Contains(string(e.RespBody), "stackTrace")
		if e.Status >= 500 && len(call.Inv) > 0 && !recovered {
			// the damaged request was still well-formed enough to be served (e.g. an unknown enum symbol
			// decodes to the "unknown" value by design); what the mock then replies with is not the
			// decoder's robustness
			c.Probe("damaged-request-served-then-failed")
			return true
		}
		if e.Status >= 500 {
			sig := "server-5xx:" + kind
			if recovered {
				sig = "server-recovered-panic:" + kind + ":" + panicSite(e.RespBody) + ":" + panicClass(e.RespBody) + ":" + methodClass(call, w)
			}
			c.Fail("C04", "malformed-request-5xx", sig, "%s: a malformed request (%s; %s; body %q) was answered %d: %s", where, detail, firstLine(e.ReqBytes), clip(bodyOf(e.ReqBytes), 200), e.Status, clip(e.RespBody, 700))
			return true
		}
		if len(call.Inv) > 1 {
			c.Fail("C04", "malformed-request-multi-dispatch", "malformed-request-multi-dispatch", "%s: resource invoked %d times for one request", where, len(call.Inv))
			return true
		}
		// independent well-formedness checks: a body that encoding/json rejects, or a path key / query
		// with unbalanced parentheses, is malformed whatever the library thinks
		if e.Status >= 300 && e.Status < 400 && len(call.Inv) == 0 {
			// a redirect without any invocation: net/http's ServeMux canonicalises paths ("//", "/./") by redirecting
			// before the library ever sees the request; nothing of go-restli's was served
			c.Probe("damaged-request-redirected-by-the-mux")
		} else if e.Status < 400 || len(call.Inv) > 0 {
			_, uri, _, body := parseWire(e.ReqBytes)
			if kind == "damage-body" && len(body) > 0 && !structurallyValidJSON(body) && takesBody(call) {
				c.Fail("C04", "malformed-body-accepted", "malformed-body-accepted:"+methodClass(call, w), "%s: the request body is not valid JSON (%s) yet it was served: status %d, invocations %d; body %q", where, detail, e.Status, len(call.Inv), clip(body, 300))
				return true
			}
			if (kind == "damage-path" || kind == "damage-query") && unbalancedKeys(uri) {
				c.Fail("C04", "unbalanced-ror2-accepted", "unbalanced-ror2-accepted:"+kind+":"+methodClass(call, w), "%s: the request target has unbalanced parentheses (%s) yet it was served: %s -> status %d, invocations %d", where, detail, firstLine(e.ReqBytes), e.Status, len(call.Inv))
				return true
			}
		}
		if e.Status >= 400 && e.Status < 500 {
			c.Probe("malformed-request-rejected-4xx")
			if len(call.Inv) > 0 {
				c.Fail("C04", "rejected-but-dispatched", "rejected-but-dispatched:"+kind, "%s: request answered %d but resource code ran (%s)", where, e.Status, detail)
			}
		} else {
			c.Probe("damaged-request-still-served")
		}
		return true
	}
	// damaged response: the client returns a value or an error, never panics (checked above)
	if call.Err == nil && kind == "damage-resp-body" && call.Out.Kind == "value" {
		if rb := e.RespBodySent; len(rb) > 0 && !structurallyValidJSON(rb) {
			c.Fail("C04", "malformed-response-accepted", "malformed-response-accepted:"+methodClass(call, w), "%s: the response body is not valid JSON (%s) yet the client call returned success: %q", where, detail, clip(rb, 300))
			return true
		}
	}
	if call.Err != nil {
		c.Probe("malformed-response-error")
	} else {
		c.Probe("damaged-response-still-decoded")
	}
	return true
}

// structurallyValidJSON checks STRUCTURE only, written from the JSON grammar and deliberately
// lenient about lexical detail where parsers commonly are (any run of non-structural bytes is a
// scalar: leading zeros, raw control characters inside strings etc. are not "malformed" here):
// exactly one complete top-level value, objects as "key":value lists, arrays as value lists, strings
// closed, nothing but blanks after the end.
func structurallyValidJSON(b []byte) bool {
	i := 0
	ws := func() {
		for i < len(b) && (b[i] == ' ' || b[i] == '\t' || b[i] == '\n' || b[i] == '\r' || b[i] < 0x20) {
			i++
		}
	}
	str := func() bool {
		if i >= len(b) || b[i] != '"' {
			return false
		}
		i++
		for i < len(b) {
			switch b[i] {
			case '\\':
				i += 2
				continue
			case '"':
				i++
				return true
			}
			i++
		}
		return false
	}
	var value func(depth int) bool
	value = func(depth int) bool {
		if depth > 200 {
			return false
		}
		ws()
		if i >= len(b) {
			return false
		}
		switch b[i] {
		case '{':
			i++
			ws()
			if i < len(b) && b[i] == '}' {
				i++
				return true
			}
			for {
				ws()
				if !str() {
					return false
				}
				ws()
				if i >= len(b) || b[i] != ':' {
					return false
				}
				i++
				if !value(depth + 1) {
					return false
				}
				ws()
				if i >= len(b) {
					return false
				}
				if b[i] == ',' {
					i++
					continue
				}
				if b[i] == '}' {
					i++
					return true
				}
				return false
			}
		case '[':
			i++
			ws()
			if i < len(b) && b[i] == ']' {
				i++
				return true
			}
			for {
				if !value(depth + 1) {
					return false
				}
				ws()
				if i >= len(b) {
					return false
				}
				if b[i] == ',' {
					i++
					continue
				}
				if b[i] == ']' {
					i++
					return true
				}
				return false
			}
		case '"':
			return str()
		case '}', ']', ',', ':':
			return false
		}
		// a scalar: anything up to the next structural byte or blank
		st := i
		for i < len(b) && !strings.ContainsRune("{}[],:\" \t\r\n", rune(b[i])) {
			i++
		}
		return i > st
	}
	if !value(0) {
		return false
	}
	ws()
	return i == len(b)
}

// unbalancedKeys: unbalanced parentheses in the part of the request target that carries entity keys
// (the path, and the ids parameter of batch requests). Parameter names and unknown parameters are
// left alone: unknown parameters are skipped by design.
func unbalancedKeys(uri string) bool {
	path, query := uri, ""
	if i := strings.IndexByte(uri, '?'); i >= 0 {
		path, query = uri[:i], uri[i+1:]
	}
	if badNesting(path) {
		return true
	}
	for _, kv := range strings.Split(query, "&") {
		if strings.HasPrefix(kv, "ids=") && badNesting(kv) {
			return true
		}
	}
	return false
}

// badNesting: the literal parentheses of s (ROR2 escapes the ones that are content) do not nest: a count that differs, or
// a ")" before the "(" it would close.
func badNesting(s string) bool {
	depth := 0
	for i := 0; i < len(s); i++ {
		switch s[i] {
		case '(':
			depth++
		case ')':
			depth--
			if depth < 0 {
				return true
			}
		}
	}
	return depth != 0
}

// takesBody: does the method read its request body at all? (An action without parameters ignores
// the body by design: "it's valid for an action with no parameters to supply an empty POST body".)
func takesBody(call *Call) bool {
	if !strings.HasSuffix(call.Method, "Action") {
		return true
	}
	for _, a := range call.Args {
		if a.Kind() == reflect.Ptr && a.Elem().Kind() == reflect.Struct && strings.HasSuffix(a.Elem().Type().Name(), "ActionParams") {
			return true
		}
	}
	return false
}

// panicClass: which kind of run-time error a recovered panic was.
func panicClass(body []byte) string {
	s := string(body)
	switch {
	case strings.Contains(s, "index out of range"):
		return "index-out-of-range"
	case strings.Contains(s, "nil pointer"):
		return "nil-pointer"
	case strings.Contains(s, "slice bounds"):
		return "slice-bounds"
	}
	return "other"
}

func bodyOf(wire []byte) []byte {
	_, _, _, b := parseWire(wire)
	return b
}

func topFrame(p string) string {
	for _, l := range strings.Split(p, "\n") {
		l = strings.TrimSpace(l)
		if strings.Contains(l, "go-restli") && strings.Contains(l, "(") && !strings.HasPrefix(l, "/") {
			if i := strings.LastIndex(l, "/"); i >= 0 {
				l = l[i+1:]
			}
			if i := strings.Index(l, "("); i >= 0 {
				l = l[:i]
			}
			return l
		}
	}
	return "?"
}

// panicSite names the innermost go-restli frame of a recovered panic's stack trace.
func panicSite(body []byte) string {
	s := strings.ReplaceAll(string(body), "\\n", "\n")
	s = strings.ReplaceAll(s, "\\t", "\t")
	seenPanic := false
	for _, l := range strings.Split(s, "\n") {
		l = strings.TrimSpace(l)
		if strings.HasPrefix(l, "panic(") {
			seenPanic = true
			continue
		}
		if seenPanic && strings.Contains(l, "go-restli") && !strings.HasPrefix(l, "/") {
			if i := strings.LastIndex(l, "/"); i >= 0 {
				l = l[i+1:]
			}
			if i := strings.Index(l, "("); i >= 0 {
				l = l[:i]
			}
			return l
		}
	}
	return "?"
}
