//go:build vscratch

package s4

import (
	"bytes"
	"fmt"
	"io"
	"mime"
	"mime/multipart"
	"net/http"
	"net/textproto"
	"net/url"
	"reflect"
	"strings"

	"github.com/PapaCharlie/go-restli/v2/restli"

	"verif/sim/harness"
	"verif/sim/kern"
)

// Scenario "tunnel" (C14): twin execution. Every call is issued twice against the same
// handler — once through a client with tunnelling off, once with a threshold placed
// around the encoded query length of that very call — and what routing, filters and
// the resource see, and what the clients return, must be identical.

func reqView(req *http.Request) string {
	return fmt.Sprintf("verb=%s path=%s query=%s ctype=%q restli-method=%q version=%q", req.Method, req.URL.EscapedPath(), req.URL.RawQuery,
		req.Header.Get("Content-Type"), req.Header.Get("X-RestLi-Method"), req.Header.Get("X-RestLi-Protocol-Version"))
}

func parseWire(b []byte) (method, uri string, hdr http.Header, body []byte) {
	head, rest, _ := bytes.Cut(b, []byte("\r\n\r\n"))
	lines := strings.Split(string(head), "\r\n")
	parts := strings.SplitN(lines[0], " ", 3)
	method = parts[0]
	if len(parts) > 1 {
		uri = parts[1]
	}
	hdr = http.Header{}
	for _, l := range lines[1:] {
		if i := strings.Index(l, ": "); i > 0 {
			hdr.Add(l[:i], l[i+2:])
		}
	}
	return method, uri, hdr, rest
}

func tunnel(c *harness.Ctx) {
	sim := c.NewSim()
	c.Cfg["filters"] = "view"
	w := newWorld(c, sim, 0)
	w.viewFilter = true
	ntasks := 1 + c.Choose(2, "ntasks")
	type pair struct{ a, b *Call }
	plan := make([][]*pair, ntasks)
	total := 0
	for t := range plan {
		n := 1 + c.Choose(3, "ncalls")
		for i := 0; i < n; i++ {
			rd := w.res[c.Choose(len(w.res), "callres")]
			a := w.planCall(rd, nil)
			if a == nil {
				continue
			}
			if c.Choose(6, "long-query") == 5 && lengthenQuery(c, a) {
				c.Probe("query-of-several-thousand-bytes")
			}
			b := &Call{ID: len(calls), Res: rd, Method: a.Method, Args: a.Args, Expect: a.Expect, Out: a.Out, MustReject: a.MustReject, Desc: a.Desc + " [tunnelled twin]", Twin: a}
			if a.Out.Lazy != nil {
				ft := w.mocks[rd].Elem().FieldByName("Mock" + a.Method).Type()
				w.successOutcome(b, ft)
			}
			calls = append(calls, b)
			w.calls = append(w.calls, b)
			a.NoFaults = true
			b.thresholdSel = c.Choose(6, "threshold")
			if c.Cfg["damage"] != "" && c.Choose(3, "damage?") == 2 {
				b.damageSel = 1 + c.Choose(6, "tunnel-damage")
			}
			plan[t] = append(plan[t], &pair{a, b})
			total += 2
		}
	}
	w.net.grow(sim, total+2)
	for t := range plan {
		t := t
		sim.Go(fmt.Sprintf("caller%d", t), func() {
			for _, p := range plan[t] {
				kern.Yield("before-call")
				w.run(p.a)
				L := 0
				if len(p.a.Exchanges) > 0 {
					_, uri, _, _ := parseWire(p.a.Exchanges[0].ReqBytes)
					if i := strings.IndexByte(uri, '?'); i >= 0 {
						L = len(uri) - i - 1
					}
				}
				p.b.queryLen = L
				th := []int{1, L - 1, L, L + 1, 1000000, 0}[p.b.thresholdSel]
				if th < 0 {
					th = 0
				}
				p.b.threshold = th
				// a client that differs from the first only in its threshold
				u, _ := url.Parse(strings.Replace(w.base, "%ROOT%", strings.Split(p.b.Res.Path, "/")[0], 1))
				rc := &restli.Client{Client: w.rc.Client, StrictResponseDeserialization: w.rc.StrictResponseDeserialization, HostnameResolver: &resolver{base: u}, QueryTunnellingThreshold: th}
				p.b.client = reflect.ValueOf(p.b.Res.NewClient(rc))
				if p.b.damageSel > 0 {
					p.b.MutateWire = func(wire []byte, e *Exchange) []byte { return damageTunnel(c, p.b, wire, e) }
				}
				kern.Yield("before-twin")
				w.run(p.b)
			}
		})
	}
	world := descOf(w)
	for _, ps := range plan {
		for _, p := range ps {
			c.Sample(world + " " + p.a.Desc)
			c.Case(p.a.Res.Name + "." + p.a.Method + fmt.Sprintf("|th%d", p.b.thresholdSel))
			break
		}
	}
	sim.Run(200000)
	if sim.Dead || sim.Budget {
		c.Fail("C14", "rpc-deadlock", "rpc-deadlock", "callers/servers did not finish: %s (%s)", sim.DeadInfo, world)
		return
	}
	for _, t := range sim.Tasks() {
		if t.Panic != nil {
			c.Fail("HARNESS", "task-panic", "task-panic", "task %s panicked: %v\n%s", t.Name, t.Panic, t.PanicStk)
			return
		}
	}
	for _, ps := range plan {
		for _, p := range ps {
			checkTwin(c, w, p.a, p.b, world)
			if c.Failed() {
				return
			}
		}
	}
}

func damageTunnel(c *harness.Ctx, b *Call, wire []byte, e *Exchange) []byte {
	method, uri, hdr, body := parseWire(wire)
	if hdr.Get("X-Http-Method-Override") == "" {
		return wire // not tunnelled: nothing to damage
	}
	mt, params, _ := mime.ParseMediaType(hdr.Get("Content-Type"))
	rebuild := func(newURI string, newBody []byte, ctype string) []byte {
		var buf bytes.Buffer
		fmt.Fprintf(&buf, "%s %s HTTP/1.1\r\n", method, newURI)
		for k, vs := range hdr {
			for _, v := range vs {
				if k == "Content-Length" {
					v = fmt.Sprint(len(newBody))
				}
				if k == "Content-Type" && ctype != "" {
					v = ctype
				}
				fmt.Fprintf(&buf, "%s: %s\r\n", k, v)
			}
		}
		buf.WriteString("\r\n")
		buf.Write(newBody)
		return buf.Bytes()
	}
	type part struct {
		ct   string
		data []byte
	}
	var parts []part
	if mt == "multipart/mixed" {
		r := multipart.NewReader(bytes.NewReader(body), params["boundary"])
		for {
			p, err := r.NextPart()
			if err != nil {
				break
			}
			d, _ := io.ReadAll(p)
			parts = append(parts, part{p.Header.Get("Content-Type"), d})
		}
	}
	remix := func(ps []part) []byte {
		var mb bytes.Buffer
		mw := multipart.NewWriter(&mb)
		mw.SetBoundary(params["boundary"])
		for _, p := range ps {
			pw, _ := mw.CreatePart(textproto.MIMEHeader{"Content-Type": {p.ct}})
			pw.Write(p.data)
		}
		mw.Close()
		return mb.Bytes()
	}
	kind := ""
	out := wire
	switch b.damageSel {
	case 1: // override header combined with a URL query
		kind = "tunnel-extra-url-query"
		out = rebuild(uri+"?x=1", body, "")
	case 2: // missing query part
		if len(parts) == 2 {
			kind = "tunnel-drop-query-part"
			out = rebuild(uri, remix(parts[1:]), "")
		}
	case 3: // missing body part
		if len(parts) == 2 {
			kind = "tunnel-drop-body-part"
			out = rebuild(uri, remix(parts[:1]), "")
		}
	case 4: // unknown part type
		if len(parts) == 2 {
			kind = "tunnel-unknown-part"
			out = rebuild(uri, remix(append(parts[:2:2], part{"text/plain", []byte("hello")})), "")
		}
	case 6: // the override header with a body that is neither a form nor multipart
		kind = "tunnel-foreign-content-type"
		out = rebuild(uri, body, []string{"text/plain", "application/json", "multipart/mixed"}[len(body)%3])
	case 5: // empty query part
		if len(parts) == 2 {
			kind = "tunnel-empty-query-part"
			out = rebuild(uri, remix([]part{{parts[0].ct, nil}, parts[1]}), "")
		}
	}
	if kind != "" {
		e.Faults = append(e.Faults, kind)
		c.Fault(kind)
	}
	return out
}

func checkTwin(c *harness.Ctx, w *World, a, b *Call, world string) {
	where := fmt.Sprintf("call #%d/%d %s threshold=%d querylen=%d [%s]", a.ID, b.ID, a.Desc, b.threshold, b.queryLen, world)
	// the untunnelled twin is an ordinary call
	checkCall(c, w, a, world)
	if c.Failed() || a.MustReject {
		return
	}
	if len(b.Exchanges) == 0 {
		c.Fail("C14", "twin-not-sent", "twin-not-sent:"+b.Method, "%s: the tunnelling client sent nothing: %v", where, b.Err)
		return
	}
	eb := b.Exchanges[0]
	// what went on the wire (before damage): parse the recorded request bytes
	method, uri, hdr, _ := parseWire(eb.ReqBytes)
	am, auri, _, _ := parseWire(a.Exchanges[0].ReqBytes)
	damaged := false
	for _, f := range eb.Faults {
		if strings.HasPrefix(f, "tunnel-") {
			damaged = true
		}
	}
	shouldTunnel := b.threshold > 0 && b.queryLen > b.threshold
	override := hdr.Get("X-Http-Method-Override")
	if !damaged {
		if shouldTunnel {
			c.Probe("tunnelled")
			if b.queryLen == b.threshold+1 {
				c.Probe("exactly-one-above-threshold")
			}
			if method != "POST" || override != am || strings.Contains(uri, "?") {
				c.Fail("C14", "tunnel-shape", "tunnel-shape", "%s: query longer than the threshold must be sent as POST with override=%s and an empty URL query; wire: %s %s override=%q", where, am, method, uri, override)
				return
			}
			ct, _, _ := mime.ParseMediaType(hdr.Get("Content-Type"))
			if ct != "application/x-www-form-urlencoded" && ct != "multipart/mixed" {
				c.Fail("C14", "tunnel-shape", "tunnel-ctype", "%s: tunnelled request has content type %q", where, hdr.Get("Content-Type"))
				return
			}
			if ct == "multipart/mixed" {
				c.Probe("multipart-tunnel")
			}
		} else {
			if b.queryLen == b.threshold {
				c.Probe("exactly-at-threshold")
			}
			if method != am || uri != auri || override != "" {
				c.Fail("C14", "tunnel-untouched", "tunnel-untouched", "%s: a query not exceeding the threshold must be sent untouched; untunnelled wire: %s %s, this wire: %s %s override=%q", where, am, auri, method, uri, override)
				return
			}
		}
	}
	if damaged {
		c.Probe("damaged-tunnel")
		if len(b.Inv) > 0 {
			c.Fail("C14", "damaged-tunnel-dispatched", "damaged-tunnel-dispatched:"+strings.Join(eb.Faults, "+"), "%s: a malformed tunnelled request (%v) reached resource code", where, eb.Faults)
			return
		}
		if eb.Status != 400 {
			c.Fail("C14", "damaged-tunnel-status", "damaged-tunnel-status:"+strings.Join(eb.Faults, "+")+fmt.Sprint(":", eb.Status), "%s: a malformed tunnelled request (%v) was answered %d, not 400; body %q panic=%q", where, eb.Faults, eb.Status, clip(eb.RespBody, 200), eb.Panic)
			return
		}
		return
	}
	checkCall(c, w, b, world)
	if c.Failed() {
		return
	}
	// identical view after de-tunnelling
	if a.View != b.View {
		c.Fail("C14", "twin-view", "twin-view:"+a.Method, "%s: routing saw different requests\n untunnelled: %s\n tunnelled:   %s", where, a.View, b.View)
		return
	}
	// identical results
	if (a.Err == nil) != (b.Err == nil) {
		c.Fail("C14", "twin-result", "twin-result:"+a.Method, "%s: errors differ: %v vs %v", where, a.Err, b.Err)
		return
	}
	if a.Out.Lazy == nil {
		for i := range a.Rets {
			if ok, p := deepEq(a.Rets[i], b.Rets[i], fmt.Sprintf("ret%d", i)); !ok {
				c.Fail("C14", "twin-result", "twin-result:"+a.Method, "%s: results differ at %s", where, p)
				return
			}
		}
	}
}

// lengthenQuery makes one string-valued query parameter of the call several thousand bytes long (in what is sent and
// in what the resource is expected to receive): tunnelled requests then carry a query that does not fit any internal
// buffer of a few kilobytes, with or without a body next to it.
func lengthenQuery(c *harness.Ctx, call *Call) bool {
	long := strings.Repeat("q", 3000+c.Choose(6000, "long-query-len"))
	done := false
	for i := range call.Args {
		set := func(v reflect.Value) bool {
			if v.Kind() != reflect.Ptr || v.IsNil() || v.Elem().Kind() != reflect.Struct || !strings.HasSuffix(v.Elem().Type().Name(), "Params") {
				return false
			}
			for k := 0; k < v.Elem().NumField(); k++ {
				f := v.Elem().Field(k)
				switch {
				case f.Kind() == reflect.String && f.CanSet():
					f.SetString(long)
					return true
				case f.Kind() == reflect.Ptr && f.Type().Elem().Kind() == reflect.String && f.CanSet():
					p := reflect.New(f.Type().Elem())
					p.Elem().SetString(long)
					f.Set(p)
					return true
				}
			}
			return false
		}
		if set(call.Args[i]) {
			done = true
			if i < len(call.Expect) && call.Expect[i].IsValid() && call.Expect[i].Kind() == reflect.Ptr && !call.Expect[i].IsNil() && call.Expect[i].Pointer() != call.Args[i].Pointer() {
				set(call.Expect[i])
			}
		}
	}
	if done {
		call.Desc += " [long query]"
	}
	return done
}
