//go:build vscratch

package s4

import (
	"bufio"
	"bytes"
	"encoding/json"
	"fmt"
	"hash/fnv"
	"net/http"
	"net/http/httptest"
	"os"
	"reflect"
	"sort"
	"strings"

	"verif/sim/harness"
	"verif/sim/kern"
	"verif/sim/simrt"
)

// Scenario "canon" (C09): map iteration order is the one source of nondeterminism in
// the codec layer; with the map-order seam it is a schedule the simulator chooses.
// Every planned call is executed once with every map iterating in canonical order and
// then several times with every range-over-map site (writers, BuildQueryParams, batch
// key sets, hashing, header copying) iterating in a permutation drawn from the choice
// stream, and with batch keys supplied in a different order: request and response
// bytes must be identical, and keys / parameters / ids must be in ascending order.

type directTransport struct {
	w       *World
	handler http.Handler
	req     []byte
	resp    []byte
}

func (d *directTransport) RoundTrip(req *http.Request) (*http.Response, error) {
	if call := d.w.net.getCur(-1); call != nil {
		req.Header.Set(callHeader, fmt.Sprint(call.ID))
	}
	var buf bytes.Buffer
	if err := req.Write(&buf); err != nil {
		return nil, err
	}
	d.req = append([]byte(nil), buf.Bytes()...)
	sreq, err := http.ReadRequest(bufio.NewReader(&buf))
	if err != nil {
		return nil, err
	}
	sreq.Header.Del(callHeader)
	rec := httptest.NewRecorder()
	d.handler.ServeHTTP(rec, sreq)
	res := rec.Result()
	var rb bytes.Buffer
	// headers in sorted order (http.Header.Write sorts), body verbatim
	fmt.Fprintf(&rb, "%d\n", res.StatusCode)
	res.Header.Write(&rb)
	rb.WriteString("\n")
	rb.Write(rec.Body.Bytes())
	d.resp = rb.Bytes()
	return http.ReadResponse(bufio.NewReader(bytes.NewReader(mustDump(res, rec.Body.Bytes()))), req)
}

func mustDump(res *http.Response, body []byte) []byte {
	var b bytes.Buffer
	fmt.Fprintf(&b, "HTTP/1.1 %d %s\r\n", res.StatusCode, http.StatusText(res.StatusCode))
	res.Header.Write(&b)
	b.WriteString("\r\n")
	b.Write(body)
	return b.Bytes()
}

// jsonKeysAscending walks a JSON document and reports the first object whose keys are
// not in strictly ascending byte order.
func jsonKeysAscending(doc []byte) string {
	dec := json.NewDecoder(bytes.NewReader(doc))
	type frame struct {
		obj     bool
		last    string
		hasLast bool
		expectK bool
	}
	var st []frame
	for {
		tok, err := dec.Token()
		if err != nil {
			return ""
		}
		switch t := tok.(type) {
		case json.Delim:
			switch t {
			case '{':
				if n := len(st); n > 0 && st[n-1].obj {
					st[n-1].expectK = true
				}
				st = append(st, frame{obj: true, expectK: true})
			case '[':
				if n := len(st); n > 0 && st[n-1].obj {
					st[n-1].expectK = true
				}
				st = append(st, frame{})
			case '}', ']':
				st = st[:len(st)-1]
			}
		default:
			n := len(st)
			if n == 0 {
				continue
			}
			f := &st[n-1]
			if f.obj && f.expectK {
				k, _ := tok.(string)
				if f.hasLast && !(f.last < k) {
					return fmt.Sprintf("key %q after %q", k, f.last)
				}
				f.last, f.hasLast, f.expectK = k, true, false
			} else if f.obj {
				f.expectK = true
			}
		}
	}
}

func topLevelList(s string) []string {
	if !strings.HasPrefix(s, "List(") || !strings.HasSuffix(s, ")") {
		return nil
	}
	s = s[5 : len(s)-1]
	var out []string
	depth, start := 0, 0
	for i := 0; i < len(s); i++ {
		switch s[i] {
		case '(':
			depth++
		case ')':
			depth--
		case ',':
			if depth == 0 {
				out = append(out, s[start:i])
				start = i + 1
			}
		}
	}
	return append(out, s[start:])
}

func canon(c *harness.Ctx) {
	sim := c.NewSim()
	defer sim.Close() // no tasks, never Run
	w := newWorld(c, sim, 0)
	dt := &directTransport{w: w, handler: w.net.handler}
	w.rc.Client.Transport = dt
	ncalls := 1 + c.Choose(4, "ncalls")
	var plan []*Call
	for i := 0; i < ncalls; i++ {
		rd := w.res[c.Choose(len(w.res), "callres")]
		if call := w.planCall(rd, nil); call != nil && !call.MustReject {
			plan = append(plan, call)
		}
	}
	nperm := 2 + c.Choose(5, "nperm")
	world := descOf(w)
	digest := fnv.New64a()
	for _, call := range plan {
		c.Sample(world + " " + call.Desc)
		c.Case(call.Res.Name + "." + call.Method)
		var baseReq, baseResp []byte
		var cached []reflect.Value
		origLazy := call.Out.Lazy
		if origLazy != nil {
			call.Out.Lazy = func(in []reflect.Value) []reflect.Value {
				if cached == nil {
					cached = origLazy(in)
				}
				return cached
			}
		}
		for k := 0; k <= nperm; k++ {
			args := append([]reflect.Value(nil), call.Args...)
			if k == 0 {
				simrt.Order = nil
			} else {
				simrt.Order = c.C.Choose
				// the same batch keys, supplied in another order
				if isBatchKeyed(call.Method) {
					ki := payloadIndex(args)
					ka := args[ki]
					if ka.Kind() == reflect.Slice && ka.Len() > 1 {
						n := reflect.MakeSlice(ka.Type(), ka.Len(), ka.Len())
						reflect.Copy(n, ka)
						for i := n.Len() - 1; i > 0; i-- {
							j := c.Choose(i+1, "keyorder")
							a, b := n.Index(i).Interface(), n.Index(j).Interface()
							n.Index(i).Set(reflect.ValueOf(b))
							n.Index(j).Set(reflect.ValueOf(a))
						}
						args[ki] = n
						c.Probe("batch-keys-reordered")
					}
				}
			}
			if k > 0 && c.Choose(3, "failed-serialization-first") == 2 {
				// "earlier use of the library": a serialization that fails half-way (an entity with an
				// illegal enum constant) right before this one must leave no trace in its output
				if bad, ok := poisoned(call.Args); ok {
					w.net.setCur(-1, nil)
					// no order draws while it fails: how far it gets before the failure can depend on the
					// (uncontrollable) iteration order of a pointer-keyed map, and the number of draws with it
					saved := simrt.Order
					simrt.Order = nil
					func() {
						defer func() { simrt.Order = saved }()
						defer func() { recover() }()
						in := append([]reflect.Value{reflect.ValueOf(bgCtx)}, bad...)
						rets := call.client.MethodByName(call.Method + "WithContext").Call(in)
						if e := rets[len(rets)-1]; !e.IsNil() {
							c.Probe("failed-serialization-before")
						}
					}()
				}
			}
			w.net.setCur(-1, call)
			call.Inv, call.Filt = nil, nil
			dt.req, dt.resp = nil, nil
			before := simrt.Permuted
			func() {
				defer func() {
					if r := recover(); r != nil {
						call.Panicked = fmt.Sprint(r)
					}
				}()
				in := append([]reflect.Value{reflect.ValueOf(bgCtx)}, args...)
				rets := call.client.MethodByName(call.Method + "WithContext").Call(in)
				if e := rets[len(rets)-1]; !e.IsNil() && dt.req == nil {
					dt.req = []byte("client error before sending: " + e.Interface().(error).Error())
				}
			}()
			simrt.Order = nil
			if simrt.Permuted > before {
				c.Probe("non-identity-map-order-applied")
			}
			if call.Panicked != "" {
				c.Fail("HARNESS", "canon-panic", "canon-panic", "%s panicked: %s", call.Desc, call.Panicked)
				return
			}
			if k == 0 {
				baseReq, baseResp = dt.req, dt.resp
				digest.Write(baseReq)
				digest.Write(baseResp)
				if f := os.Getenv("S4_CANON_DUMP"); f != "" {
					// debugging aid for the determinism protocol
					if fh, err := os.OpenFile(f, os.O_APPEND|os.O_CREATE|os.O_WRONLY, 0644); err == nil {
						fmt.Fprintf(fh, "%s\nREQ %q\nRESP %q\n", call.Desc, baseReq, baseResp)
						fh.Close()
					}
				}
				if msg := checkAscending(baseReq, baseResp); msg != "" {
					c.Fail("C09", "not-ascending", "not-ascending:"+strings.SplitN(msg, ":", 2)[0], "%s [%s]: %s\n request: %s\n response: %s", call.Desc, world, msg, clip(baseReq, 600), clip(baseResp, 600))
					return
				}
				continue
			}
			if !bytes.Equal(baseReq, dt.req) {
				c.Fail("C09", "request-bytes-differ", "request-bytes-differ:"+diffSite(baseReq, dt.req), "%s [%s]: the serialized request depends on map iteration / key supply order (permutation #%d)\n canonical: %s\n permuted:  %s", call.Desc, world, k, clip(baseReq, 700), clip(dt.req, 700))
				return
			}
			if !bytes.Equal(baseResp, dt.resp) {
				c.Fail("C09", "response-bytes-differ", "response-bytes-differ:"+diffSite(baseResp, dt.resp), "%s [%s]: the serialized response depends on map iteration order (permutation #%d)\n canonical: %s\n permuted:  %s", call.Desc, world, k, clip(baseResp, 700), clip(dt.resp, 700))
				return
			}
		}
		call.Out.Lazy = origLazy
	}
	w.net.setCur(-1, nil)
	c.Digest(digest.Sum64())
	kern.S = nil
}

// poisoned returns a copy of args in which the first enum found inside the last argument is set to
// an illegal constant, so that marshalling it fails after part of the value was written.
func poisoned(args []reflect.Value) ([]reflect.Value, bool) {
	if len(args) == 0 {
		return nil, false
	}
	out := append([]reflect.Value(nil), args...)
	li := len(args) - 1
	for i := len(args) - 1; i >= 0; i-- {
		// the entity (or entities) is what gets serialized into the body
		if k := args[i].Kind(); k == reflect.Ptr || k == reflect.Slice || k == reflect.Map {
			li = i
			if k != reflect.Ptr || !strings.HasSuffix(args[i].Type().String(), "Params") {
				break
			}
		}
	}
	last := deepCopy(args[li])
	var poison func(v reflect.Value) bool
	poison = func(v reflect.Value) bool {
		switch v.Kind() {
		case reflect.Ptr, reflect.Interface:
			if v.IsNil() {
				return false
			}
			return poison(v.Elem())
		case reflect.Struct:
			// later fields first: the more has been written before the failure, the better
			for i := v.NumField() - 1; i >= 0; i-- {
				if v.Type().Field(i).IsExported() && poison(v.Field(i)) {
					return true
				}
			}
		case reflect.Slice:
			for i := v.Len() - 1; i >= 0; i-- {
				if poison(v.Index(i)) {
					return true
				}
			}
		case reflect.Map:
			for _, k := range sortedKeys(v) {
				e := v.MapIndex(k)
				if e.Kind() == reflect.Ptr && poison(e) {
					return true
				}
			}
		case reflect.Int32:
			if _, ok := v.Type().MethodByName("IsValid"); ok && v.CanSet() {
				v.SetInt(0)
				return true
			}
		}
		return false
	}
	if !poison(last) {
		return nil, false
	}
	out[li] = last
	return out, true
}

// diffSite says where two serializations first differ: request line, headers or body.
func diffSite(a, b []byte) string {
	i := 0
	for i < len(a) && i < len(b) && a[i] == b[i] {
		i++
	}
	head := bytes.Index(a, []byte("\r\n\r\n"))
	if head < 0 {
		head = bytes.Index(a, []byte("\n\n"))
	}
	line := bytes.IndexByte(a, '\n')
	switch {
	case i <= line:
		return "first-line"
	case head >= 0 && i < head:
		return "headers"
	}
	return "body"
}

func checkAscending(req, resp []byte) string {
	_, uri, _, body := parseWire(req)
	if i := strings.IndexByte(uri, '?'); i >= 0 {
		var names []string
		for _, kv := range strings.Split(uri[i+1:], "&") {
			name := kv
			if j := strings.IndexByte(kv, '='); j >= 0 {
				name = kv[:j]
			}
			names = append(names, name)
			if name == "ids" && strings.HasPrefix(kv, "ids=List(") {
				ids := topLevelList(kv[4:])
				if !sort.StringsAreSorted(ids) {
					return fmt.Sprintf("batch-ids: not in ascending encoded order: %v", ids)
				}
			}
		}
		if !sort.StringsAreSorted(names) {
			return fmt.Sprintf("query-params: names not in ascending order: %v", names)
		}
	}
	if len(body) > 0 && body[0] == '{' {
		if m := jsonKeysAscending(body); m != "" {
			return "request-json-keys: " + m
		}
	}
	if i := bytes.Index(resp, []byte("\n\n")); i >= 0 {
		rb := resp[i+2:]
		if len(rb) > 0 && rb[0] == '{' {
			if m := jsonKeysAscending(rb); m != "" {
				return "response-json-keys: " + m
			}
		}
	}
	return ""
}
