//go:build vscratch

package s4

import (
	"context"
	"errors"
	"fmt"
	"net/http"
	"reflect"
	"runtime/debug"
	"sort"
	"strings"

	"github.com/PapaCharlie/go-restli/v2/restli"
	"github.com/PapaCharlie/go-restli/v2/restlidata/generated/com/linkedin/restli/common"

	"verif/sim/harness"
	"verif/sim/kern"
)

// ResDesc describes one generated resource of the family (filled in by glue.go).
type ResDesc struct {
	Name, Path, Kind     string
	Depth                int
	ReadOnly, CreateOnly []string
	NewClient            func(c *restli.Client) interface{}
	NewMock              func() interface{}
	Register             func(s restli.Server, mock interface{})
}

// Outcome is what the resource implementation (the mock) does for one call.
type Outcome struct {
	Kind     string // value | errresp | error | panic | nilentity
	Rets     []reflect.Value
	ErrResp  *common.ErrorResponse
	ErrSnap  reflect.Value // deep copy of ErrResp taken when it was created
	Err      error
	PanicVal string
	Status   int // overridden ctx.ResponseStatus (0 = leave)
	Lazy     func(in []reflect.Value) []reflect.Value
	Shared   bool
}

type Invocation struct {
	Res      *ResDesc
	Field    string
	Args     []reflect.Value
	CtxInfo  string
	Task     int
	RetsUsed []reflect.Value
}

type FilterEvent struct {
	Filter int
	Phase  string // pre | post
	Info   string
}

type Call struct {
	// PostFail: a PostRequest filter is to fail for this call (cfg postfail=1); PostFailed: it did
	PostFail, PostFailed bool
	// an intermediary put a (possibly contradicting) X-RestLi-Method header on a request to a simple resource
	liedHeader bool
	// per-key error objects a keyed batch reply carries, with a copy taken when they were made (C08: error objects
	// returned by resource code are not modified)
	batchErrs                                    []*common.ErrorResponse
	batchErrSnaps                                []reflect.Value
	ID                                           int
	Res                                          *ResDesc
	Method                                       string
	Args                                         []reflect.Value
	Expect                                       []reflect.Value
	Out                                          Outcome
	Inv                                          []Invocation
	Filt                                         []FilterEvent
	Rets                                         []reflect.Value
	Err                                          error
	Panicked                                     string
	Done                                         bool
	Exchanges                                    []*Exchange
	NoFaults                                     bool
	Mutate                                       func(*http.Request, *Exchange)
	MutateWire                                   func([]byte, *Exchange) []byte
	MutateResp                                   func(http.Header, []byte, *Exchange) (http.Header, []byte)
	cancel                                       func()
	client                                       reflect.Value
	Desc                                         string
	Twin                                         *Call
	Tag                                          string
	ExpectMethod                                 string // restli method name the filters must see
	MustReject                                   bool   // the client has to refuse this call before anything is sent (C07)
	View                                         string // the request as the first filter saw it (after de-tunnelling)
	thresholdSel, threshold, queryLen, damageSel int
	wantStatus                                   int    // a deliberately damaged request must be answered with this status
	wantDupReject                                bool   // duplicate keys: the client must refuse before sending
	byzClient                                    bool   // the request was rewritten to carry a value at an excluded path
	superset                                     bool   // the (Byzantine) server mentioned a key that was never requested
	collidingStranger                            string // key part of a never-requested complex key whose hash equals a requested key's
}

//go:norace
func (c *Call) addInv(i Invocation) { c.Inv = append(c.Inv, i) }

//go:norace
func (c *Call) setView(v string) { c.View = v }

//go:norace
func (c *Call) addFilt(f FilterEvent) { c.Filt = append(c.Filt, f) }

// takePostFail: is this call's PostRequest to fail now? (once per call)
//
//go:norace
func (c *Call) takePostFail() bool {
	if c.PostFail && !c.PostFailed {
		c.PostFailed = true
		return true
	}
	return false
}

//go:norace
func (c *Call) postFailed() bool { return c.PostFailed }

var errorType = reflect.TypeOf((*error)(nil)).Elem()

// World is one simulated deployment: a server with registered mocks behind a mounting,
// a simulated network and generated clients.
type World struct {
	c          *harness.Ctx
	sim        *kern.Sim
	net        *Net
	g          *Gen
	res        []*ResDesc
	mocks      map[*ResDesc]reflect.Value
	clients    map[*ResDesc]reflect.Value
	rc         *restli.Client
	calls      []*Call
	strays     []Invocation
	mount      string
	base       string
	nfilt      int
	filtFail   int // index of a filter that fails (-1 none)
	viewFilter bool
	srv        restli.Server
	late       *ResDesc // registered on srv by a task after Handler() was taken
}

//go:norace
func (w *World) addStray(i Invocation) { w.strays = append(w.strays, i) }

func methodsOf(client reflect.Value) []string {
	var out []string
	t := client.Type()
	for i := 0; i < t.NumMethod(); i++ {
		n := t.Method(i).Name
		if !strings.HasSuffix(n, "WithContext") {
			if _, ok := t.MethodByName(n + "WithContext"); ok {
				out = append(out, n)
			}
		}
	}
	return out
}

// installMocks sets every Mock* field of a generated MockResource to a recording stub.
func (w *World) installMocks(rd *ResDesc, mock reflect.Value) {
	mv := mock.Elem()
	mt := mv.Type()
	for i := 0; i < mt.NumField(); i++ {
		f := mt.Field(i)
		if f.Type.Kind() != reflect.Func || !strings.HasPrefix(f.Name, "Mock") {
			continue
		}
		name, ft := f.Name, f.Type
		mv.Field(i).Set(reflect.MakeFunc(ft, func(in []reflect.Value) []reflect.Value {
			return w.mockInvoked(rd, name, ft, in)
		}))
	}
}

func zeroRets(ft reflect.Type, err error) []reflect.Value {
	out := make([]reflect.Value, ft.NumOut())
	for i := range out {
		out[i] = reflect.Zero(ft.Out(i))
	}
	if err != nil && len(out) > 0 {
		out[len(out)-1] = reflect.ValueOf(&err).Elem()
	}
	return out
}

func ctxInfo(rc *restli.RequestContext) (info string) {
	defer func() {
		if r := recover(); r != nil {
			info = fmt.Sprintf("ctx-panic:%v", r)
		}
	}()
	ctx := rc.Request.Context()
	m := restli.GetMethodFromContext(ctx)
	info = "method=" + m.String()
	var segs []string
	for _, s := range restli.GetResourcePathSegmentsFromContext(ctx) {
		segs = append(segs, fmt.Sprintf("%+v", s))
	}
	info += " segs=" + strings.Join(segs, ",")
	info += fmt.Sprintf(" nkeys=%d", len(restli.GetEntitySegmentsFromContext(ctx)))
	if m == restli.Method_finder {
		info += " finder=" + restli.GetFinderNameFromContext(ctx)
	}
	if m == restli.Method_action {
		info += " action=" + restli.GetActionNameFromContext(ctx)
	}
	return info
}

func (w *World) mockInvoked(rd *ResDesc, field string, ft reflect.Type, in []reflect.Value) []reflect.Value {
	call := w.net.getCur(kern.CurID())
	inv := Invocation{Res: rd, Field: field, Task: kern.CurID()}
	for _, a := range in[1:] {
		inv.Args = append(inv.Args, deepCopy(a))
	}
	rc, _ := in[0].Interface().(*restli.RequestContext)
	if rc != nil {
		inv.CtxInfo = ctxInfo(rc)
	}
	if kern.Tracing() {
		kern.Note("op-invoke", "resource."+rd.Name+"."+field, renderArgs(inv.Args))
	}
	kern.Yield("mock")
	if call == nil {
		w.addStray(inv)
		return zeroRets(ft, errors.New("sim: request without call id reached resource code"))
	}
	if call.Res != rd || "Mock"+call.Method != field {
		call.addInv(inv)
		return zeroRets(ft, errors.New("sim: wrong resource method invoked"))
	}
	out := &call.Out
	var rets []reflect.Value
	switch out.Kind {
	case "panic":
		call.addInv(inv)
		panic(out.PanicVal)
	case "errresp":
		rets = zeroRets(ft, out.ErrResp)
	case "error":
		rets = zeroRets(ft, out.Err)
	case "nilentity":
		rets = zeroRets(ft, nil)
	default:
		if out.Lazy != nil {
			rets = out.Lazy(in)
		} else {
			rets = out.Rets
		}
		if out.Status != 0 && rc != nil {
			rc.ResponseStatus = out.Status
		}
	}
	inv.RetsUsed = rets
	call.addInv(inv)
	return rets
}

func renderArgs(args []reflect.Value) string {
	var p []string
	for _, a := range args {
		p = append(p, render(a))
	}
	return "(" + strings.Join(p, ", ") + ")"
}

// planCall draws a method of rd, its arguments and the resource's outcome.
func (w *World) planCall(rd *ResDesc, onlyMethods func(string) bool) *Call {
	client := w.clients[rd]
	ms := methodsOf(client)
	if onlyMethods != nil {
		var f []string
		for _, m := range ms {
			if onlyMethods(m) {
				f = append(f, m)
			}
		}
		ms = f
	}
	if len(ms) == 0 {
		return nil
	}
	name := ms[w.c.Choose(len(ms), "method")]
	call := &Call{ID: len(calls), Res: rd, Method: name, client: client}
	calls = append(calls, call)
	w.calls = append(w.calls, call)
	mt := client.MethodByName(name + "WithContext").Type()
	for i := 1; i < mt.NumIn(); i++ {
		call.Args = append(call.Args, w.genArg(mt.In(i), name))
	}
	for _, a := range call.Args {
		e := deepCopy(a)
		fillDefaults(e)
		call.Expect = append(call.Expect, e)
	}
	call.MustReject = normaliseForExclusion(call)
	// success outcome by default; configurations overwrite it
	ft := w.mocks[rd].Elem().FieldByName("Mock" + name).Type()
	w.successOutcome(call, ft)
	call.Desc = fmt.Sprintf("%s.%s%s", rd.Name, name, renderArgs(call.Args))
	return call
}

// payloadIndex is the position of the keys / entities argument of a call: the last slice or map
// (a parameter struct may follow it).
func payloadIndex(args []reflect.Value) int {
	for i := len(args) - 1; i >= 0; i-- {
		k := args[i].Kind()
		if (k == reflect.Slice && args[i].Type().Elem().Kind() != reflect.Uint8) || k == reflect.Map {
			return i
		}
	}
	return len(args) - 1
}

func isBatchKeyed(method string) bool {
	switch method {
	case "BatchGet", "BatchDelete", "BatchUpdate", "BatchPartialUpdate":
		return true
	}
	return false
}

func (w *World) genArg(t reflect.Type, method string) reflect.Value {
	g := w.g
	switch {
	case t.Kind() == reflect.Slice && isBatchKeyed(method):
		// distinct keys (duplicates are C16's subject)
		n := 1 + w.c.Choose(3, "nkeys")
		s := reflect.MakeSlice(t, 0, n)
		seen := map[string]bool{}
		for i := 0; i < n; i++ {
			k := g.Key(t.Elem())
			r := keyIdentity(k)
			if seen[r] {
				continue
			}
			seen[r] = true
			s = reflect.Append(s, k)
		}
		return s
	case t.Kind() == reflect.Map && isBatchKeyed(method):
		n := 1 + w.c.Choose(3, "nkeys")
		m := reflect.MakeMap(t)
		seen := map[string]bool{}
		for i := 0; i < n; i++ {
			k := g.Key(t.Key())
			r := keyIdentity(k)
			if seen[r] {
				continue
			}
			seen[r] = true
			m.SetMapIndex(k, g.NonNil(t.Elem()))
		}
		return m
	case t.Kind() == reflect.Slice && method == "BatchCreate":
		n := 1 + w.c.Choose(3, "nentities")
		s := reflect.MakeSlice(t, 0, n)
		for i := 0; i < n; i++ {
			s = reflect.Append(s, g.NonNil(t.Elem()))
		}
		return s
	}
	if isKeyType(t) {
		return g.Key(t)
	}
	return g.NonNil(t)
}

// keyIdentity renders a key under KEY equality: complex keys compare by their key
// part only (the embedded record), ignoring Params.
func keyIdentity(k reflect.Value) string {
	v := k
	for v.Kind() == reflect.Ptr && !v.IsNil() {
		v = v.Elem()
	}
	if v.Kind() == reflect.Struct {
		if _, ok := v.Type().FieldByName("Params"); ok && v.NumField() == 2 && v.Type().Field(0).Anonymous {
			return render(v.Field(0))
		}
	}
	return render(v)
}

// successOutcome makes the mock return freshly generated values.
func (w *World) successOutcome(call *Call, ft reflect.Type) {
	g := w.g
	call.Out = Outcome{Kind: "value"}
	nout := ft.NumOut()
	if isBatchKeyed(call.Method) {
		// keyed replies are built from the keys the resource actually received
		call.Out.Lazy = func(in []reflect.Value) []reflect.Value {
			return w.batchReply(call, ft, in)
		}
		return
	}
	rets := make([]reflect.Value, nout)
	for i := 0; i < nout-1; i++ {
		ot := ft.Out(i)
		switch {
		case call.Method == "BatchCreate" && ot.Kind() == reflect.Slice:
			// one created entity per submitted entity
			n := call.Args[payloadIndex(call.Args)].Len()
			s := reflect.MakeSlice(ot, 0, n)
			for k := 0; k < n; k++ {
				s = reflect.Append(s, g.NonNil(ot.Elem()))
			}
			rets[i] = s
		default:
			rets[i] = g.NonNil(ot)
		}
	}
	rets[nout-1] = reflect.Zero(errorType)
	call.Out.Rets = rets
}

// batchReply answers a keyed batch call: every received key gets exactly one entry in
// Results, Statuses or Errors, each with a unique value.
func (w *World) batchReply(call *Call, ft reflect.Type, in []reflect.Value) []reflect.Value {
	rt := ft.Out(0) // *BatchResponse[K,V]
	resp := reflect.New(rt.Elem())
	var keys []reflect.Value
	ka := in[payloadIndex(in)]
	if ka.Kind() == reflect.Map {
		keys = sortedKeys(ka)
	} else {
		for i := 0; i < ka.Len(); i++ {
			keys = append(keys, ka.Index(i))
		}
		// the order in which the server hands the keys to the resource is its own business (it may come out
		// of a map): draw the entries in an order of our own, or that order leaks into the choice stream
		sort.SliceStable(keys, func(i, j int) bool { return render(keys[i]) < render(keys[j]) })
	}
	results := resp.Elem().FieldByName("Results")
	errs := resp.Elem().FieldByName("Errors")
	results.Set(reflect.MakeMap(results.Type()))
	errs.Set(reflect.MakeMap(errs.Type()))
	g := &Gen{c: w.c, Benign: w.g.Benign, NoSpecial: w.g.NoSpecial, uniq: 1000 * (call.ID + 1)}
	for _, k := range keys {
		if kern.Choose(4, "batch-entry-kind") == 3 {
			st := int32(400 + kern.Choose(100, "batch-err-status"))
			msg := fmt.Sprintf("err-%d-%s", call.ID, render(k))
			er := &common.ErrorResponse{Status: &st, Message: &msg}
			if kern.Choose(4, "batch-err-no-status") == 3 {
				er.Status = nil // a per-key error that leaves the status to the library
			}
			call.batchErrs = append(call.batchErrs, er)
			call.batchErrSnaps = append(call.batchErrSnaps, deepCopy(reflect.ValueOf(er)))
			errs.SetMapIndex(k, reflect.ValueOf(er))
		} else {
			results.SetMapIndex(k, g.NonNil(results.Type().Elem()))
		}
	}
	w.byzantine(call, resp, keys)
	return []reflect.Value{resp, reflect.Zero(errorType)}
}

func genErrorResponseLite(st int32) *common.ErrorResponse {
	m := "byzantine"
	return &common.ErrorResponse{Status: &st, Message: &m}
}

func sortedKeys(m reflect.Value) []reflect.Value {
	keys := m.MapKeys()
	// deterministic order (map iteration order must not leak into the choice stream)
	for i := 1; i < len(keys); i++ {
		for j := i; j > 0 && render(keys[j]) < render(keys[j-1]); j-- {
			keys[j], keys[j-1] = keys[j-1], keys[j]
		}
	}
	return keys
}

// run executes the call on the current (caller) task.
func (w *World) run(call *Call) {
	w.net.setCur(kern.CurID(), call)
	ctx, cancel := ctxWithCancel()
	call.cancel = cancel
	defer cancel()
	// the caller's header hook is a legitimate place for time to pass between building a request
	// (query, body, tunnelling) and sending it
	ctx = restli.ExtraRequestHeaders(ctx, func() (http.Header, error) {
		kern.Yield("extra-headers")
		return nil, nil
	})
	args := []reflect.Value{reflect.ValueOf(ctx)}
	args = append(args, call.Args...)
	func() {
		defer func() {
			if r := recover(); r != nil {
				if kern.IsAbort(r) {
					panic(r)
				}
				call.Panicked = fmt.Sprintf("%v\n%s", r, debug.Stack())
			}
		}()
		kern.Note("op-invoke", "client."+call.Desc, "")
		rets := call.client.MethodByName(call.Method + "WithContext").Call(args)
		call.Rets = rets[:len(rets)-1]
		if e := rets[len(rets)-1]; !e.IsNil() {
			call.Err = e.Interface().(error)
		}
	}()
	call.Done = true
	if kern.Tracing() {
		kern.Note("op-return", "client."+call.Res.Name+"."+call.Method, fmt.Sprintf("err=%v rets=%s", call.Err, renderArgs(call.Rets)))
	}
	w.net.setCur(kern.CurID(), nil)
}

var _ = context.Background
