//go:build vscratch

package s4

import (
	"math"
	"reflect"
	"strings"

	"verif/sim/harness"
)

// Reflective value generator: builds arguments and mock replies for any generated
// method signature from the choice stream. Index 0 of every pool is the "simplest"
// value so that minimised replays read naturally.

// strPool: every ROR2 / JSON / URL metacharacter, '%', space, dot segments, empty,
// non-ASCII; all valid UTF-8 (JSON cannot carry anything else in a string).
var strAtoms = []string{"a", "b", "x1", " ", "%", "/", "?", "#", "&", "=", "(", ")", ",", ":", "'", "\"", "\\", ".", "..", "+", "~",
	"é", "日", "%2F", "%41", "''", "List(", ";", "@", "$", "*", "!", "[", "]", "{", "}", "<", ">", "|", "^", "`", "\t", "\n", "\r\n", " ", "\U0001F600", "\x00", "\x7f", "-", "_", "0"}

type Gen struct {
	c         *harness.Ctx
	uniq      int
	Benign    bool // only plain ASCII letters in strings (for configurations that must not depend on escaping)
	depth     int
	NoSpecial bool // no NaN/Inf floats
	keyMode   int  // >0 while generating entity keys / created ids: no control characters (a created id
	// travels in the X-RestLi-Id and Location headers, where CTLs are not legal; C02 quantifies over
	// reserved URL and ROR2 characters, percent signs, empty strings and non-ASCII, not over CTLs)
}

func isCtlAtom(s string) bool {
	for i := 0; i < len(s); i++ {
		if s[i] < 0x20 || s[i] == 0x7f {
			return true
		}
	}
	return false
}

func isKeyType(t reflect.Type) bool {
	switch t.Kind() {
	case reflect.String, reflect.Int32, reflect.Int64, reflect.Bool, reflect.Float32, reflect.Float64:
		return true
	case reflect.Slice:
		return t.Elem().Kind() == reflect.Uint8
	case reflect.Ptr:
		_, ok := t.MethodByName("ComplexKeyEquals")
		return ok
	case reflect.Struct:
		_, ok := t.MethodByName("IsCustomTyperef")
		return ok
	}
	return false
}

// Key generates a value used as an entity key or created id.
func (g *Gen) Key(t reflect.Type) reflect.Value {
	g.keyMode++
	defer func() { g.keyMode-- }()
	return g.NonNil(t)
}

func (g *Gen) Str() string {
	g.uniq++
	if g.Benign {
		return "s" + itoa(g.uniq)
	}
	switch g.c.C.Weighted("strkind", 3, 1, 6) {
	case 0:
		return "v" + itoa(g.uniq)
	case 1:
		return ""
	}
	n := 1 + g.c.Choose(3, "strlen")
	var b strings.Builder
	for i := 0; i < n; i++ {
		a := strAtoms[g.c.Choose(len(strAtoms), "atom")]
		if g.keyMode > 0 && isCtlAtom(a) {
			a = "k"
		}
		b.WriteString(a)
	}
	return b.String()
}

func itoa(i int) string {
	if i == 0 {
		return "0"
	}
	s := ""
	neg := i < 0
	if neg {
		i = -i
	}
	for i > 0 {
		s = string(rune('0'+i%10)) + s
		i /= 10
	}
	if neg {
		s = "-" + s
	}
	return s
}

var int64Pool = []int64{1, 0, -1, 7, 42, math.MaxInt64, math.MinInt64, math.MaxInt32, math.MinInt32, 1 << 53, -(1 << 53) - 1, 1000000007}
var int32Pool = []int32{1, 0, -1, 7, 42, math.MaxInt32, math.MinInt32, 65536}
var f64Pool = []float64{1.5, 0, -1.25, 1e21, 1e-7, 9.999999e20, 1.0000001e-7, math.MaxFloat64, math.SmallestNonzeroFloat64, 3.14159, -0.0, 1e300, 123456789.125}
var f64Special = []float64{math.NaN(), math.Inf(1), math.Inf(-1)}
var f32Pool = []float32{1.5, 0, -1.25, 3.4e38, 1e-45, 16777216, 0.1}

func (g *Gen) isEnum(t reflect.Type) bool {
	_, ok := t.MethodByName("IsValid")
	return ok && t.Kind() == reflect.Int32
}

func isUnion(t reflect.Type) bool {
	_, ok := reflect.PtrTo(t).MethodByName("ValidateUnionFields")
	return ok
}

func isPartialUpdate(t reflect.Type) bool {
	return t.Kind() == reflect.Struct && strings.HasSuffix(t.Name(), "_PartialUpdate")
}

// Value generates a value of type t. optional pointers may be nil; required pointers
// (entities, keys) are made non-nil by the callers through NonNil.
func (g *Gen) Value(t reflect.Type) reflect.Value {
	g.depth++
	defer func() { g.depth-- }()
	v := reflect.New(t).Elem()
	switch t.Kind() {
	case reflect.String:
		v.SetString(g.Str())
	case reflect.Bool:
		v.SetBool(g.c.Bool("bool"))
	case reflect.Int32:
		if g.isEnum(t) {
			// valid symbols are 1..n; find n by probing IsValid
			n := 0
			for i := 1; i < 64; i++ {
				x := reflect.New(t).Elem()
				x.SetInt(int64(i))
				if !x.MethodByName("IsValid").Call(nil)[0].Bool() {
					break
				}
				n = i
			}
			v.SetInt(int64(1 + g.c.Choose(n, "enum")))
		} else {
			v.SetInt(int64(int32Pool[g.c.Choose(len(int32Pool), "int32")]))
		}
	case reflect.Int64, reflect.Int:
		if t.Kind() == reflect.Int {
			v.SetInt(int64(200 + g.c.Choose(5, "status"))) // status-like ints
		} else {
			v.SetInt(int64Pool[g.c.Choose(len(int64Pool), "int64")])
		}
	case reflect.Float64:
		if !g.NoSpecial && g.c.Choose(8, "fspecial") == 7 {
			v.SetFloat(f64Special[g.c.Choose(len(f64Special), "f64s")])
		} else {
			v.SetFloat(f64Pool[g.c.Choose(len(f64Pool), "f64")])
		}
	case reflect.Float32:
		v.SetFloat(float64(f32Pool[g.c.Choose(len(f32Pool), "f32")]))
	case reflect.Slice:
		if t.Elem().Kind() == reflect.Uint8 {
			n := g.c.Choose(4, "byteslen")
			b := make([]byte, n)
			for i := range b {
				b[i] = byte([]int{65, 0, 127, 128, 255, 37, 34, 92, 10, 195}[g.c.Choose(10, "byte")])
			}
			v.SetBytes(b)
			break
		}
		n := g.c.Choose(3, "slicelen")
		if g.depth > 4 {
			n = 0
		}
		s := reflect.MakeSlice(t, 0, n)
		for i := 0; i < n; i++ {
			s = reflect.Append(s, g.NonNil(t.Elem()))
		}
		v.Set(s)
	case reflect.Array:
		for i := 0; i < t.Len(); i++ {
			v.Index(i).SetUint(uint64([]int{65, 0, 127, 128, 255, 37}[g.c.Choose(6, "fxbyte")]))
		}
	case reflect.Map:
		n := g.c.Choose(3, "maplen")
		if g.depth > 4 {
			n = 0
		}
		m := reflect.MakeMap(t)
		for i := 0; i < n; i++ {
			m.SetMapIndex(g.NonNil(t.Key()), g.NonNil(t.Elem()))
		}
		v.Set(m)
	case reflect.Ptr:
		if g.c.Choose(3, "optional") != 0 {
			v.Set(g.NonNil(t))
		}
	case reflect.Struct:
		switch {
		case isUnion(t):
			k := g.c.Choose(t.NumField(), "unionmember")
			v.Field(k).Set(g.NonNil(t.Field(k).Type))
		case isPartialUpdate(t):
			g.partialUpdate(v)
		default:
			for i := 0; i < t.NumField(); i++ {
				f := t.Field(i)
				if !f.IsExported() {
					continue
				}
				if strings.HasPrefix(t.Name(), "CreatedEntity[") && f.Name == "Status" {
					// 0 = "use the default (201)"; an overridden status must be one that may carry a body
					v.Field(i).SetInt(int64([]int{0, 201, 200, 202}[g.c.Choose(4, "created-status")]))
					continue
				}
				// (the Rest.li data records: .../restli/common in the v2 module, package restlidata in the root module)
				if (strings.HasSuffix(t.PkgPath(), "restli/common") || strings.HasSuffix(t.PkgPath(), "/restlidata")) && (f.Name == "Id" || f.Name == "Entity" || f.Name == "Metadata") {
					// instantiated type parameters (keys, entities, metadata) are required values
					if f.Name == "Id" {
						v.Field(i).Set(g.Key(f.Type))
					} else {
						v.Field(i).Set(g.NonNil(f.Type))
					}
					continue
				}
				v.Field(i).Set(g.Value(f.Type))
			}
		}
	case reflect.Interface:
		// errors etc.: left nil
	}
	return v
}

// NonNil is Value, but a pointer (or pointer-like container) is never nil.
func (g *Gen) NonNil(t reflect.Type) reflect.Value {
	if t.Kind() == reflect.Ptr {
		p := reflect.New(t.Elem())
		p.Elem().Set(g.Value(t.Elem()))
		return p
	}
	return g.Value(t)
}

// partialUpdate fills a generated *_PartialUpdate struct legally: per field at most
// one of delete / set / nested patch (the exclusion rules of C11 are not the subject).
func (g *Gen) partialUpdate(v reflect.Value) {
	t := v.Type()
	var del, set reflect.Value
	for i := 0; i < t.NumField(); i++ {
		f := t.Field(i)
		switch {
		case f.Anonymous && isPartialUpdate(f.Type):
			g.partialUpdate(v.Field(i))
		case f.Name == "Delete_Fields":
			del = v.Field(i)
		case f.Name == "Set_Fields":
			set = v.Field(i)
		}
	}
	used := map[string]bool{}
	if set.IsValid() {
		for i := 0; i < set.NumField(); i++ {
			f := set.Type().Field(i)
			if f.Anonymous {
				continue
			}
			if g.c.Choose(3, "pu-set") == 1 {
				set.Field(i).Set(g.NonNil(f.Type))
				used[f.Name] = true
			}
		}
	}
	if del.IsValid() {
		for i := 0; i < del.NumField(); i++ {
			f := del.Type().Field(i)
			if f.Anonymous || f.Type.Kind() != reflect.Bool || used[f.Name] {
				continue
			}
			if g.c.Choose(4, "pu-del") == 1 {
				del.Field(i).SetBool(true)
				used[f.Name] = true
			}
		}
	}
	for i := 0; i < t.NumField(); i++ {
		f := t.Field(i)
		if f.Type.Kind() == reflect.Ptr && isPartialUpdate(f.Type.Elem()) && !used[f.Name] {
			if g.c.Choose(4, "pu-nested") == 1 {
				p := reflect.New(f.Type.Elem())
				g.partialUpdate(p.Elem())
				if !isZeroPatch(p.Elem()) {
					v.Field(i).Set(p)
				}
			}
		}
	}
}

func isZeroPatch(v reflect.Value) bool { return v.IsZero() }
