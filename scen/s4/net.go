//go:build vscratch

package s4

import (
	"bufio"
	"bytes"
	"context"
	"errors"
	"fmt"
	"io"
	"net/http"
	"net/url"
	"sort"
	"strconv"
	"strings"
	"unsafe"

	"verif/sim/harness"
	"verif/sim/kern"
)

// The simulated network between a generated client and a restli handler. Real code on
// both sides of the wire: (*http.Request).Write / http.ReadRequest and
// (*http.Response).Write / http.ReadResponse; the stub is TCP and net/http's
// per-connection server loop. Requests are served by pre-spawned server tasks; the one
// happens-before edge per message is a buffered-channel send/receive.

const callHeader = "X-Sim-Call"

type Exchange struct {
	CallID       int
	Seq          int // nth exchange of the call (twin executions, redirects)
	ReqBytes     []byte
	Delivered    bool
	Handled      bool // handler returned (or panicked)
	ParseErr     string
	Status       int
	RespHeader   http.Header
	RespBody     []byte
	RespBodySent []byte // the response body as (possibly damaged) delivered to the client
	Panic        string // a panic that escaped ServeHTTP ("connection crashed")
	Faults       []string
	Method       string
	Path         string // escaped path as the server saw it
	RawQuery     string
	wroteHdr     bool
}

type slot struct {
	task *kern.Task
	in   chan *Exchange
	out  chan *Exchange
	busy bool
}

type FaultCfg struct {
	ReqLost, RespLost, RespTrunc, Cancel bool
	StripMethod, StripVersion            bool
	DamagePath, DamageQuery, DamageBody  bool
	DamageResp                           bool
	TunnelDamage                         bool
	Rate                                 int // percent per opportunity
}

type Net struct {
	c        *harness.Ctx
	handler  http.Handler
	slots    []*slot
	nextSlot int
	faults   FaultCfg
	tap      []*Exchange
	// per task: the call it is working on (client tasks) / serving (server tasks)
	cur [256]*Call
}

//go:norace
func (n *Net) setCur(task int, c *Call) {
	if task < 0 { // outside the kernel (single-threaded scenarios)
		task = len(n.cur) - 1
	}
	n.cur[task] = c
}

//go:norace
func (n *Net) getCur(task int) *Call {
	if task < 0 {
		task = len(n.cur) - 1
	}
	return n.cur[task]
}

//go:norace
func (n *Net) alloc() *slot {
	if n.nextSlot >= len(n.slots) {
		return nil
	}
	s := n.slots[n.nextSlot]
	n.nextSlot++
	return s
}

//go:norace
func (n *Net) record(e *Exchange) { n.tap = append(n.tap, e) }

func NewNet(c *harness.Ctx, sim *kern.Sim, handler http.Handler, nslots int) *Net {
	n := &Net{c: c, handler: handler}
	for i := 0; i < nslots; i++ {
		s := &slot{in: make(chan *Exchange, 1), out: make(chan *Exchange, 1)}
		s.task = sim.GoIdle(fmt.Sprintf("server%d", i), func() { n.serve(s) })
		n.slots = append(n.slots, s)
	}
	return n
}

type fragReader struct {
	data   []byte
	pos    int
	frag   bool
	cutAt  int // -1: none; else the stream ends with an error after cutAt bytes
	closed bool
	// fragmentation: the stream arrives in up to four segments; the boundaries are drawn once, as
	// sixteenths of the length, the first time the stream is read. Neither the number of draws nor the
	// number of scheduling points depends on the exact length or on the reader's buffer size — bodies
	// can carry text that differs from process to process (a stack trace with goroutine numbers and
	// addresses in a 500 answer), and one seed has to stay one schedule.
	bounds []int
	drawn  bool
}

func (r *fragReader) draw() {
	r.drawn = true
	nseg := 1 + kern.Choose(4, "frag")
	for i := 1; i < nseg; i++ {
		b := len(r.data) * (1 + kern.Choose(15, "frag-at")) / 16
		if b > 0 && b < len(r.data) {
			r.bounds = append(r.bounds, b)
		}
	}
	sort.Ints(r.bounds)
}

func (r *fragReader) Read(p []byte) (int, error) {
	if r.frag && !r.drawn {
		r.draw()
	}
	if r.cutAt >= 0 && r.pos >= r.cutAt {
		return 0, io.ErrUnexpectedEOF
	}
	if r.pos >= len(r.data) {
		return 0, io.EOF
	}
	for len(r.bounds) > 0 && r.bounds[0] <= r.pos {
		if r.bounds[0] == r.pos {
			kern.Yield("net-read") // the next segment has not arrived yet: somebody else may run
		}
		r.bounds = r.bounds[1:]
	}
	n := len(p)
	if rem := len(r.data) - r.pos; n > rem {
		n = rem
	}
	if r.cutAt >= 0 && r.pos+n > r.cutAt {
		n = r.cutAt - r.pos
	}
	if len(r.bounds) > 0 && r.pos+n > r.bounds[0] {
		n = r.bounds[0] - r.pos
	}
	copy(p, r.data[r.pos:r.pos+n])
	r.pos += n
	return n, nil
}
func (r *fragReader) Close() error { r.closed = true; return nil }

type respWriter struct {
	e   *Exchange
	hdr http.Header
	buf bytes.Buffer
}

func (w *respWriter) Header() http.Header { kern.Yield("resp-header"); return w.hdr }
func (w *respWriter) WriteHeader(code int) {
	kern.Yield("resp-writeheader")
	if !w.e.wroteHdr {
		w.e.wroteHdr = true
		w.e.Status = code
		w.e.RespHeader = w.hdr.Clone()
	}
}
func (w *respWriter) Write(b []byte) (int, error) {
	if !w.e.wroteHdr {
		w.WriteHeader(200)
	}
	kern.Yield("resp-write")
	return w.buf.Write(b)
}

// serve runs on a server task: one delivered message.
func (n *Net) serve(s *slot) {
	e := <-s.in
	e.Delivered = true
	br := bufio.NewReader(&fragReader{data: e.ReqBytes, cutAt: -1})
	req, err := http.ReadRequest(br)
	if err != nil {
		// what net/http's server does with an unparsable request: 400, handler not invoked
		e.ParseErr = err.Error()
		e.Status = 400
		e.RespHeader = http.Header{"Content-Type": {"text/plain; charset=utf-8"}, "Connection": {"close"}}
		e.RespBody = []byte("400 Bad Request")
		e.Handled = true
		s.out <- e
		kern.WakeAll(uintptr(unsafe.Pointer(s)))
		return
	}
	if id := req.Header.Get(callHeader); id != "" {
		k, _ := strconv.Atoi(id)
		n.setCur(kern.CurID(), n.c0call(k))
	}
	req.Header.Del(callHeader)
	e.Method, e.Path, e.RawQuery = req.Method, req.URL.EscapedPath(), req.URL.RawQuery
	// the body as a connection would deliver it: in fragments, with scheduling points
	body, _ := io.ReadAll(req.Body)
	req.Body = &fragReader{data: body, frag: true, cutAt: -1}
	req.RemoteAddr = "sim:1"
	w := &respWriter{e: e, hdr: http.Header{}}
	func() {
		defer func() {
			if r := recover(); r != nil {
				if kern.IsAbort(r) {
					panic(r)
				}
				e.Panic = fmt.Sprint(r)
			}
		}()
		kern.Yield("serve")
		n.handler.ServeHTTP(w, req)
	}()
	if !e.wroteHdr {
		e.Status = 200
		e.RespHeader = w.hdr.Clone()
	}
	e.RespBody = append([]byte(nil), w.buf.Bytes()...)
	e.Handled = true
	kern.Note("msg-send", "response", fmt.Sprintf("call %d status %d", e.CallID, e.Status))
	s.out <- e
	kern.WakeAll(uintptr(unsafe.Pointer(s)))
}

var calls []*Call

//go:norace
func (n *Net) c0call(id int) *Call {
	if id < 0 || id >= len(calls) {
		return nil
	}
	return calls[id]
}

type netError struct{ msg string }

func (e *netError) Error() string   { return e.msg }
func (e *netError) Timeout() bool   { return false }
func (e *netError) Temporary() bool { return false }

func (n *Net) fault(call *Call, e *Exchange, on bool, kind string) bool {
	if !on || n.faults.Rate == 0 {
		return false
	}
	if call != nil && call.NoFaults {
		return false
	}
	if kern.Choose(100, "fault-"+kind) < 100-n.faults.Rate {
		return false
	}
	e.Faults = append(e.Faults, kind)
	n.c.Fault(kind)
	return true
}

// RoundTrip runs on a caller task.
func (n *Net) RoundTrip(req *http.Request) (*http.Response, error) {
	// a transport reads the request (and its body) some time after the caller built it
	kern.Yield("roundtrip")
	call := n.getCur(kern.CurID())
	e := &Exchange{CallID: -1}
	if call != nil {
		e.CallID = call.ID
		e.Seq = len(call.Exchanges)
		call.Exchanges = append(call.Exchanges, e)
		req.Header.Set(callHeader, strconv.Itoa(call.ID))
	}
	n.record(e)
	if call != nil && call.Mutate != nil {
		call.Mutate(req, e)
	}
	if n.fault(call, e, n.faults.StripMethod, "strip-method") {
		if call != nil && call.Res.Kind != "collection" && kern.Choose(2, "lie-method") == 1 {
			// a simple resource's method ALWAYS follows from the verb and the action parameter: a
			// (foreign) header naming some other method must change nothing
			names := []string{"get", "delete", "update", "partial_update", "get_all", "create", "batch_get", "action", "finder"}
			req.Header.Set("X-RestLi-Method", names[kern.Choose(len(names), "lie-method-name")])
			call.liedHeader = true
			n.c.Probe("simple-resource-contradicting-header")
		} else {
			req.Header.Del("X-RestLi-Method")
		}
	}
	var buf bytes.Buffer
	if err := req.Write(&buf); err != nil {
		return nil, err
	}
	e.ReqBytes = buf.Bytes()
	if call != nil && call.MutateWire != nil {
		e.ReqBytes = call.MutateWire(e.ReqBytes, e)
	}
	kern.Note("msg-send", "request", firstLine(e.ReqBytes))
	if err := req.Context().Err(); err != nil {
		return nil, err
	}
	if n.fault(call, e, n.faults.ReqLost, "req-lost") {
		return nil, &netError{"sim: connection reset before the request was delivered"}
	}
	if n.fault(call, e, n.faults.Cancel, "cancel") && call != nil && call.cancel != nil {
		call.cancel()
		kern.Yield("cancelled")
		return nil, req.Context().Err()
	}
	s := n.alloc()
	if s == nil {
		return nil, &netError{"sim: out of server tasks"}
	}
	s.in <- e
	kern.Start(s.task)
	lateCancel := n.fault(call, e, n.faults.Cancel, "cancel-inflight") && call != nil && call.cancel != nil
	if lateCancel {
		// the caller gives up while the request is in flight; the server carries on
		kern.Yield("cancel-inflight")
		call.cancel()
		return nil, req.Context().Err()
	}
	for !n.slotDone(s) {
		kern.Block(uintptr(unsafe.Pointer(s)), "await-response")
	}
	e = <-s.out
	if e.Panic != "" {
		// net/http logs the panic and closes the connection: the client sees a reset
		return nil, &netError{"sim: connection closed by peer (handler panicked)"}
	}
	if n.fault(call, e, n.faults.RespLost, "resp-lost") {
		return nil, &netError{"sim: connection reset before the response arrived"}
	}
	hdr := e.RespHeader.Clone()
	if n.fault(call, e, n.faults.StripVersion, "strip-version") {
		hdr.Del("X-RestLi-Protocol-Version")
	}
	body := e.RespBody
	if call != nil && call.MutateResp != nil {
		hdr, body = call.MutateResp(hdr, body, e)
	}
	resp := &http.Response{StatusCode: e.Status, ProtoMajor: 1, ProtoMinor: 1, Header: hdr, ContentLength: int64(len(body)), Body: io.NopCloser(bytes.NewReader(body))}
	var rbuf bytes.Buffer
	if err := resp.Write(&rbuf); err != nil {
		return nil, err
	}
	wire := rbuf.Bytes()
	cut := -1
	if len(body) > 0 && n.fault(call, e, n.faults.RespTrunc, "resp-trunc") {
		// how many body bytes still arrive: anywhere, or (biased) at the boundaries — none at all although the
		// head announced a length, one, or all but the last
		keep := 0
		switch kern.Choose(4, "trunc-kind") {
		case 0:
			keep = len(body) - 1 - kern.Choose(len(body), "trunc-at")
		case 1:
			keep = 0
		case 2:
			keep = len(body) - 1
		case 3:
			if len(body) > 1 {
				keep = 1
			}
		}
		cut = len(wire) - len(body) + keep
	}
	fr := &fragReader{data: wire, frag: true, cutAt: cut}
	res, err := http.ReadResponse(bufio.NewReader(fr), req)
	if err != nil {
		return nil, &netError{"sim: malformed response: " + err.Error()}
	}
	res.Body = &transportBody{res.Body}
	return res, nil
}

// transportBody closes the way http.Transport's response bodies do: closing a body that was not read to its end
// (or whose connection died) gives the connection up and reports nothing — net/http's own body would try to drain
// the rest and hand the read error to the caller of Close, which no client of a real transport ever sees.
type transportBody struct{ io.ReadCloser }

func (b *transportBody) Close() error { _ = b.ReadCloser.Close(); return nil }

//go:norace
func (n *Net) slotDone(s *slot) bool { return len(s.out) > 0 }

func firstLine(b []byte) string {
	if i := bytes.IndexByte(b, '\r'); i >= 0 {
		return string(b[:i])
	}
	return string(b)
}

// resolver is the HostnameResolver seam.
type resolver struct {
	base *url.URL
	fail func() bool
}

func (r *resolver) ResolveHostnameAndContextForQuery(string, *url.URL) (*url.URL, error) {
	if r.fail != nil && r.fail() {
		return nil, errResolver
	}
	return r.base, nil
}

var errResolver = errors.New("sim: hostname resolver failed")

func ctxWithCancel() (context.Context, context.CancelFunc) {
	return context.WithCancel(context.Background())
}

func hasFault(e *Exchange, kind string) bool {
	for _, f := range e.Faults {
		if f == kind || strings.HasPrefix(f, kind) {
			return true
		}
	}
	return false
}
