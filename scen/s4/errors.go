//go:build vscratch

package s4

import (
	"errors"
	"fmt"
	"reflect"
	"strings"

	"github.com/PapaCharlie/go-restli/v2/restli"
	"github.com/PapaCharlie/go-restli/v2/restlidata/generated/com/linkedin/restli/common"

	"verif/sim/harness"
)

// C08: outcomes of the resource implementation other than plain success.

func sp(s string) *string { return &s }
func ip(i int32) *int32   { return &i }

func genErrorResponse(c *harness.Ctx, id int) *common.ErrorResponse {
	e := &common.ErrorResponse{}
	switch c.Choose(8, "err-status") {
	case 6: // an error response may carry any status the application likes; "the HTTP status equals its status" has no
		// exception for the ones below 400 (statuses that cannot carry a body - 1xx, 204, 304 - are left out: net/http
		// would drop the error document, which is not go-restli's doing)
		e.Status = ip(303)
	case 7:
		e.Status = ip(299)
	case 0:
		e.Status = ip(404)
	case 1:
		e.Status = ip(400)
	case 2:
		e.Status = ip(500)
	case 3:
		e.Status = ip(409)
	case 4:
		e.Status = ip(503)
	case 5: // unset: must be delivered as 500
	}
	if c.Choose(3, "err-message") != 0 {
		e.Message = sp(fmt.Sprintf("message-%d \"quoted\" é", id))
	}
	if c.Bool("err-code") {
		setOpt(e, "Code", sp(fmt.Sprintf("CODE_%d", id)))
	}
	if c.Bool("err-svc") {
		setOpt(e, "ServiceErrorCode", ip(int32(1000+id)))
	}
	if c.Bool("err-class") {
		e.ExceptionClass = sp("com.example.Boom" + fmt.Sprint(id))
	}
	if c.Bool("err-stack") {
		e.StackTrace = sp("at a.b.c(X.java:1)\n\tat d.e.f(Y.java:2)")
	}
	if c.Bool("err-details") {
		setOptNew(e, "ErrorDetails")
		setOpt(e, "ErrorDetailType", sp("com.example.Details"))
	}
	if c.Bool("err-more") {
		setOpt(e, "DocUrl", sp("http://doc/"+fmt.Sprint(id)))
		setOpt(e, "RequestId", sp("req-"+fmt.Sprint(id)))
	}
	return e
}

// drawOutcome replaces the success outcome of a planned call by one drawn from the
// outcome space of C08.
func (w *World) drawOutcome(call *Call, shared []*common.ErrorResponse) {
	ft := w.mocks[call.Res].Elem().FieldByName("Mock" + call.Method).Type()
	hasValue := ft.NumOut() == 2
	switch w.c.C.Weighted("outcome", 3, 4, 2, 2, 1, 2) {
	case 0: // plain success (kept)
	case 1:
		var e *common.ErrorResponse
		if len(shared) > 0 && w.c.Choose(3, "shared-err") != 0 {
			e = shared[w.c.Choose(len(shared), "which-shared")]
			call.Out.Shared = true
			w.c.Probe("shared-error-object")
		} else {
			e = genErrorResponse(w.c, call.ID)
		}
		call.Out = Outcome{Kind: "errresp", ErrResp: e, ErrSnap: deepCopy(reflect.ValueOf(e)), Shared: call.Out.Shared}
	case 2:
		call.Out = Outcome{Kind: "error", Err: errors.New(fmt.Sprintf("plain-failure-%d", call.ID))}
		if w.c.Choose(3, "wrapped-errresp") == 2 {
			// "any other error" includes one that merely wraps a Rest.li error response further down its chain
			st := int32(404)
			msg := fmt.Sprintf("inner-%d", call.ID)
			call.Out.Err = fmt.Errorf("plain-failure-%d wrapping: %w", call.ID, &common.ErrorResponse{Status: &st, Message: &msg})
			w.c.Probe("plain-error-wrapping-an-error-response")
		}
	case 3:
		call.Out = Outcome{Kind: "panic", PanicVal: fmt.Sprintf("resource-panic-%d", call.ID)}
	case 4:
		if hasValue && ft.Out(0).Kind() == reflect.Ptr {
			call.Out = Outcome{Kind: "nilentity"}
		}
	case 5: // success with an overridden status
		if call.Out.Kind == "value" && call.Method != "BatchCreate" {
			call.Out.Status = []int{200, 202, 203}[w.c.Choose(3, "status-override")]
		}
	}
}

func defaultStatus(call *Call, w *World) int {
	ft := w.mocks[call.Res].Elem().FieldByName("Mock" + call.Method).Type()
	switch call.Method {
	case "Create":
		return 201
	case "Update", "Delete":
		return 204
	case "PartialUpdate":
		if ft.NumOut() == 2 {
			return 200
		}
		return 204
	}
	return 200
}

// checkOutcome is the C08 oracle for one completed, fault-free call.
func checkOutcome(c *harness.Ctx, w *World, call *Call, where string) {
	if len(call.Exchanges) == 0 {
		return
	}
	e := call.Exchanges[len(call.Exchanges)-1]
	for i, er := range call.batchErrs {
		if ok, p := deepEq(call.batchErrSnaps[i], reflect.ValueOf(er), "error"); !ok {
			c.Fail("C08", "error-object-modified", "error-object-modified:batch:"+pathSig(p), "%s: a per-key error object the resource returned in a batch result was modified by the server: %s (was %s, is %s)", where, p, render(call.batchErrSnaps[i]), render(reflect.ValueOf(er)))
			return
		}
	}
	if len(call.batchErrs) > 0 {
		c.Probe("batch-error-objects-checked")
	}
	hdrSet := strings.EqualFold(e.RespHeader.Get("X-RestLi-Error-Response"), "true")
	kind := call.Out.Kind
	sigBase := kind + ":" + methodClass(call, w)
	switch kind {
	case "value":
		if hdrSet {
			c.Fail("C08", "error-header-on-success", "error-header-on-success:"+call.Method, "%s: successful call carries the error header", where)
			return
		}
		want := defaultStatus(call, w)
		if call.Out.Status != 0 {
			want = call.Out.Status
			c.Probe("status-overridden")
		}
		if call.Method == "Create" && len(call.Inv) == 1 && len(call.Inv[0].RetsUsed) > 0 && !call.Inv[0].RetsUsed[0].IsNil() {
			// the status in the returned CreatedEntity wins over one set through the request context
			if st := call.Inv[0].RetsUsed[0].Elem().FieldByName("Status"); st.IsValid() && st.Int() != 0 {
				want = int(st.Int())
			}
		}
		if e.Status != want {
			c.Fail("C08", "success-status", fmt.Sprintf("success-status:%s:%d!=%d", methodClass(call, w), e.Status, want), "%s: HTTP status %d, expected %d", where, e.Status, want)
		}
		return
	case "errresp":
		var re *restli.Error
		if !errors.As(call.Err, &re) {
			c.Fail("C08", "error-not-delivered", "error-not-delivered:"+sigBase+":"+fmt.Sprintf("%T", call.Err), "%s: the resource returned %s; the client returned %T %v (status %d, body %q)", where, render(call.Out.ErrSnap), call.Err, call.Err, e.Status, clip(e.RespBody, 200))
			return
		}
		snap := call.Out.ErrSnap.Elem()
		got := reflect.ValueOf(&re.ErrorResponse).Elem()
		for i := 0; i < snap.NumField(); i++ {
			if snap.Field(i).IsNil() {
				continue
			}
			if ok, p := deepEq(snap.Field(i), got.Field(i), snap.Type().Field(i).Name); !ok {
				c.Fail("C08", "error-field", "error-field:"+snap.Type().Field(i).Name, "%s: error response field differs: %s\n resource: %s\n client:   %s", where, p, render(call.Out.ErrSnap), render(got))
				return
			}
		}
		want := 500
		if st := snap.FieldByName("Status"); !st.IsNil() {
			want = int(st.Elem().Int())
		} else {
			c.Probe("error-without-status")
		}
		if snap.FieldByName("Message").IsNil() {
			c.Probe("error-without-message")
		}
		if e.Status != want {
			c.Fail("C08", "error-status", fmt.Sprintf("error-status:%d!=%d", e.Status, want), "%s: HTTP status %d, the error response says %d", where, e.Status, want)
			return
		}
		if !hdrSet {
			c.Fail("C08", "error-header-missing", "error-header-missing", "%s: error response without the error header", where)
			return
		}
	case "error", "panic", "nilentity":
		if call.Err == nil {
			c.Fail("C08", "failure-as-success", "failure-as-success:"+sigBase, "%s: the resource %s but the client call succeeded: %s (status %d)", where, describeOutcome(call), renderArgs(call.Rets), e.Status)
			return
		}
		if !hdrSet {
			// "becomes an error response": the Rest.li error envelope, announced by its header
			c.Fail("C08", "error-header-missing", "error-header-missing:"+sigBase, "%s: the resource %s; the answer (status %d) is not a Rest.li error response: the error header is missing; body %q", where, describeOutcome(call), e.Status, clip(e.RespBody, 200))
			return
		}
		if e.Status < 400 {
			c.Fail("C08", "failure-status", "failure-status:"+sigBase, "%s: the resource %s; HTTP status %d is not a failure status", where, describeOutcome(call), e.Status)
			return
		}
		text := ""
		if kind == "error" {
			text = call.Out.Err.Error()
		} else if kind == "panic" {
			text = call.Out.PanicVal
		}
		if text != "" && !strings.Contains(call.Err.Error(), text) && !strings.Contains(string(e.RespBody), text) {
			c.Fail("C08", "failure-message", "failure-message:"+sigBase, "%s: the resource %s; the client error does not carry its message: %v", where, describeOutcome(call), call.Err)
			return
		}
	}
	// error objects returned by resource code are not modified
	if kind == "errresp" {
		if ok, p := deepEq(call.Out.ErrSnap, reflect.ValueOf(call.Out.ErrResp), "error"); !ok {
			c.Fail("C08", "error-object-modified", "error-object-modified:"+pathSig(p), "%s: the error object returned by the resource was modified by the server: %s (was %s, is %s)", where, p, render(call.Out.ErrSnap), render(reflect.ValueOf(call.Out.ErrResp)))
		}
	}
}

func describeOutcome(call *Call) string {
	switch call.Out.Kind {
	case "error":
		return "returned the error " + call.Out.Err.Error()
	case "panic":
		return "panicked with " + call.Out.PanicVal
	case "nilentity":
		return "returned a nil entity with a nil error"
	}
	return call.Out.Kind
}

// methodClass groups methods by the shape of their server adapter.
func methodClass(call *Call, w *World) string {
	m := call.Method
	switch {
	case strings.HasPrefix(m, "FindBy"):
		return "finder"
	case strings.HasSuffix(m, "Action"):
		return "action"
	}
	return m
}

// setOpt sets an optional field of an error response if this module's ErrorResponse has it (the root module's
// record has fewer fields than v2's; the scenario sources are shared between the two).
func setOpt(e *common.ErrorResponse, field string, v interface{}) {
	f := reflect.ValueOf(e).Elem().FieldByName(field)
	if f.IsValid() && f.Type() == reflect.TypeOf(v) {
		f.Set(reflect.ValueOf(v))
	}
}

// setOptNew points a pointer-typed field, if there is one of that name, at a fresh zero value.
func setOptNew(e *common.ErrorResponse, field string) {
	f := reflect.ValueOf(e).Elem().FieldByName(field)
	if f.IsValid() && f.Kind() == reflect.Ptr {
		f.Set(reflect.New(f.Type().Elem()))
	}
}
