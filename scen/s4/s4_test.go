//go:build vscratch

// Scenario S4 (rpc): generated clients -> simulated network -> restli handler ->
// generated server adapters -> generated MockResource, all real code, driven
// reflectively; the reference model is the mock table.
package s4

import (
	"context"
	"errors"
	"fmt"
	"io"
	"log"
	"net/http"
	"net/url"
	"reflect"
	"strings"
	"testing"

	"github.com/PapaCharlie/go-restli/v2/restli"
	"github.com/PapaCharlie/go-restli/v2/restlidata/generated/com/linkedin/restli/common"

	"verif/sim/harness"
	"verif/sim/kern"
)

type simFilter struct {
	w    *World
	idx  int
	fail bool
}

type filtKey int

var bgCtx = context.Background()

func (f *simFilter) PreRequest(req *http.Request) (context.Context, error) {
	kern.Yield("filter-pre")
	call := f.w.net.getCur(kern.CurID())
	info := func() (s string) {
		defer func() {
			if r := recover(); r != nil {
				s = fmt.Sprintf("ctx-panic:%v", r)
			}
		}()
		ctx := req.Context()
		m := restli.GetMethodFromContext(ctx)
		s = "method=" + m.String()
		s += fmt.Sprintf(" nsegs=%d nkeys=%d", len(restli.GetResourcePathSegmentsFromContext(ctx)), len(restli.GetEntitySegmentsFromContext(ctx)))
		if m == restli.Method_finder {
			s += " finder=" + restli.GetFinderNameFromContext(ctx)
		}
		if m == restli.Method_action {
			s += " action=" + restli.GetActionNameFromContext(ctx)
		}
		return s
	}()
	if call != nil {
		call.addFilt(FilterEvent{f.idx, "pre", info})
		if f.idx == 0 {
			call.setView(reqView(req))
		}
	}
	if f.fail {
		return nil, errors.New("sim: filter refused the request")
	}
	return context.WithValue(req.Context(), filtKey(f.idx), f.idx), nil
}

func (f *simFilter) PostRequest(ctx context.Context, h http.Header) error {
	kern.Yield("filter-post")
	if call := f.w.net.getCur(kern.CurID()); call != nil {
		call.addFilt(FilterEvent{f.idx, "post", ""})
		if f.idx == f.w.nfilt-1 && call.takePostFail() {
			// injected fault: the first PostRequest to run fails once, with an error that is not an error response
			// (cfg postfail=1). The call it hits is judged like any call under a fault; what it leaves behind in the
			// handler is judged by the calls that follow.
			f.w.c.Fault("post-filter-fail")
			return errors.New("sim: post-request filter failed")
		}
	}
	return nil
}

// newWorld builds server, mounting, network and clients from the choice stream.
func newWorld(c *harness.Ctx, sim *kern.Sim, nslots int) *World {
	w := &World{c: c, sim: sim, g: &Gen{c: c}, mocks: map[*ResDesc]reflect.Value{}, clients: map[*ResDesc]reflect.Value{}, filtFail: -1}
	calls = nil
	cfg := c.Cfg
	w.g.Benign = cfg["strings"] == "benign"
	// resources: 1-3 of the family, or a fixed one
	var pick []*ResDesc
	if only := cfg["res"]; only != "" {
		for _, rd := range Resources {
			for _, o := range strings.Split(only, "+") {
				if rd.Name == o {
					pick = append(pick, rd)
				}
			}
		}
	} else {
		n := 1 + c.Choose(3, "nres")
		used := map[int]bool{}
		for i := 0; i < n; i++ {
			k := c.Choose(len(Resources), "res")
			if !used[k] {
				used[k] = true
				pick = append(pick, Resources[k])
			}
		}
	}
	// a sub-resource needs nothing from its parent to be registered, but registering the
	// parent too exercises the shared path nodes
	w.res = pick
	// filters
	var filters []restli.Filter
	if cfg["filters"] == "view" {
		w.nfilt = 1
		filters = append(filters, &simFilter{w: w, idx: 0})
	} else if cfg["filters"] != "" {
		w.nfilt = c.Choose(4, "nfilters")
		if w.nfilt > 0 && c.Choose(4, "filter-fails") == 3 {
			w.filtFail = c.Choose(w.nfilt, "which-filter-fails")
		}
		for i := 0; i < w.nfilt; i++ {
			filters = append(filters, &simFilter{w: w, idx: i, fail: i == w.filtFail})
		}
	}
	// mounting
	mounts := []string{"bare"}
	if cfg["mounts"] != "" {
		mounts = strings.Split(cfg["mounts"], "+")
	}
	w.mount = mounts[c.Choose(len(mounts), "mount")]
	prefix := ""
	var srv restli.Server
	if w.mount == "prefix" {
		prefix = []string{"/api", "/api/v1", "/x/"}[c.Choose(3, "prefix")]
		srv = restli.NewPrefixedServer(prefix, filters...)
	} else {
		srv = restli.NewServer(filters...)
	}
	for _, rd := range pick {
		m := reflect.ValueOf(rd.NewMock())
		w.mocks[rd] = m
		w.installMocks(rd, m)
		rd.Register(srv, m.Interface())
	}
	var handler http.Handler
	switch w.mount {
	case "mux":
		mux := http.NewServeMux()
		srv.AddToMux(mux)
		handler = mux
	default:
		handler = srv.Handler()
	}
	w.srv = srv
	if cfg["late"] != "" {
		// a resource that is registered only after the handler was obtained: preferably one that
		// hangs below (or shares the root of) a resource the handler already knows, so that the
		// registration touches existing path nodes; otherwise a new root
		var below, fresh []*ResDesc
		for _, rd := range Resources {
			picked, sameRoot := false, false
			for _, p := range pick {
				if p == rd {
					picked = true
				}
				if strings.Split(p.Path, "/")[0] == strings.Split(rd.Path, "/")[0] {
					sameRoot = true
				}
			}
			switch {
			case picked:
			case sameRoot:
				below = append(below, rd)
			default:
				fresh = append(fresh, rd)
			}
		}
		cands := fresh
		if len(below) > 0 && (len(fresh) == 0 || c.Choose(3, "late-below") != 0) {
			cands = below
			c.Probe("late-registration-below-existing-root")
		}
		if len(cands) > 0 {
			w.late = cands[c.Choose(len(cands), "late-res")]
			m := reflect.ValueOf(w.late.NewMock())
			w.mocks[w.late] = m
			w.installMocks(w.late, m)
		}
	}
	w.net = NewNet(c, sim, handler, nslots)
	// resolver base
	bases := []string{"http://h"}
	if cfg["bases"] != "" {
		bases = []string{"http://h", "http://h/", "https://h:8443", "http://h/ctx", "http://h/ctx/deep/", "http://h/%ROOT%"}
	}
	base := bases[c.Choose(len(bases), "base")]
	if w.mount == "prefix" {
		base = "http://h" + strings.TrimSuffix(prefix, "/")
	}
	if strings.Contains(base, "/ctx") && w.mount != "prefix" {
		// a context path on the client side needs the same prefix on the server side
		base = "http://h"
	}
	w.base = base
	w.rc = &restli.Client{Client: &http.Client{Transport: w.net}, StrictResponseDeserialization: c.Bool("strict")}
	all := pick
	if w.late != nil {
		all = append(append([]*ResDesc(nil), pick...), w.late)
	}
	for _, rd := range all {
		b := strings.Replace(base, "%ROOT%", strings.Split(rd.Path, "/")[0], 1)
		u, _ := url.Parse(b)
		rc := &restli.Client{Client: w.rc.Client, StrictResponseDeserialization: w.rc.StrictResponseDeserialization, HostnameResolver: &resolver{base: u}}
		w.clients[rd] = reflect.ValueOf(rd.NewClient(rc))
	}
	return w
}

func descOf(w *World) string {
	var rs []string
	for _, r := range w.res {
		rs = append(rs, r.Name)
	}
	return fmt.Sprintf("res=%v mount=%s base=%s filters=%d", rs, w.mount, w.base, w.nfilt)
}

// rpc is the scenario behind C02 (and, by configuration, its siblings).
func rpc(c *harness.Ctx) {
	sim := c.NewSim()
	ntasks := 1 + c.Choose(4, "ntasks")
	plan := make([][]*Call, ntasks)
	total := 0
	w := newWorld(c, sim, 0)
	var sharedErrs []*common.ErrorResponse
	if c.Cfg["outcomes"] == "errors" {
		for i := 0; i < c.Choose(3, "nshared"); i++ {
			sharedErrs = append(sharedErrs, genErrorResponse(c, 900+i))
		}
	}
	for t := range plan {
		n := 1 + c.Choose(4, "ncalls")
		for i := 0; i < n; i++ {
			rd := w.res[c.Choose(len(w.res), "callres")]
			var only func(string) bool
			if c.Cfg["methods"] == "batch" {
				only = isBatchKeyed
			} else if c.Cfg["methods"] == "excl" {
				only = func(m string) bool { return excludedFor(rd, m) != nil }
			}
			if call := w.planCall(rd, only); call != nil {
				if c.Cfg["outcomes"] == "errors" {
					w.drawOutcome(call, sharedErrs)
				}
				if c.Cfg["byzclient"] != "" && !call.MustReject && c.Choose(2, "byzclient?") == 1 {
					byzantineClient(c, call)
				}
				if c.Cfg["faults"] == "hostile" {
					hostile(c, call)
				}
				if c.Cfg["postfail"] != "" && w.nfilt > 0 && w.filtFail < 0 && c.Choose(3, "postfail?") == 0 {
					call.PostFail = true
				}
				if c.Cfg["keys"] == "adv" {
					w.adversarialKeys(call)
				}
				if c.Cfg["route"] == "damage" && c.Choose(2, "damage?") == 1 {
					damagePath(c, w, call)
				}
				plan[t] = append(plan[t], call)
				total++
			}
		}
	}
	var lateCalls []*Call
	if w.late != nil {
		for i := 0; i < 1+c.Choose(2, "nlatecalls"); i++ {
			if call := w.planCall(w.late, nil); call != nil {
				lateCalls = append(lateCalls, call)
				total++
			}
		}
	}
	// the server pool is spawned before anything runs
	// everything the tasks read is written before the first task is spawned (spawn is the only
	// happens-before edge the kernel gives them)
	w.net.faults = faultsFor(c)
	w.net.grow(sim, total*2+2)
	if w.late != nil {
		sim.Go("late-register", func() {
			kern.Yield("before-late-register")
			w.late.Register(w.srv, w.mocks[w.late].Interface())
			c.Probe("late-registration-ran")
		})
		sim.Go("late-caller", func() {
			for _, call := range lateCalls {
				kern.Yield("before-call")
				w.run(call)
			}
		})
	}
	for t := range plan {
		t := t
		sim.Go(fmt.Sprintf("caller%d", t), func() {
			for _, call := range plan[t] {
				kern.Yield("before-call")
				w.run(call)
			}
		})
	}
	world := descOf(w)
	for _, cs := range plan {
		for _, call := range cs {
			c.Sample(world + " " + call.Desc)
			c.Case(call.Res.Name + "." + call.Method + "|" + w.mount)
			break
		}
	}
	sim.Run(200000)
	if sim.Dead || sim.Budget {
		c.Fail("C02", "rpc-deadlock", "rpc-deadlock", "callers/servers did not finish: dead=%v budget=%v %s (%s)", sim.Dead, sim.Budget, sim.DeadInfo, world)
		return
	}
	for _, t := range sim.Tasks() {
		if t.Panic != nil {
			c.Fail("HARNESS", "task-panic", "task-panic", "task %s panicked outside a call: %v\n%s", t.Name, t.Panic, t.PanicStk)
			return
		}
	}
	for _, cs := range plan {
		for _, call := range cs {
			checkCall(c, w, call, world)
			if c.Failed() {
				return
			}
		}
	}
	for _, call := range lateCalls {
		// resources registered after Handler() was taken do not affect that handler
		if len(call.Inv) > 0 {
			c.Fail("C05", "late-registration-visible", "late-registration-visible", "call #%d %s reached a resource that was registered after the handler had been obtained [%s]", call.ID, call.Desc, world)
			return
		}
		if st := 0; call.Done && len(call.Exchanges) > 0 && !call.MustReject && !anyFault(call) {
			// an unknown resource or sub-resource is 404; a known path node without that method is 400
			st = call.Exchanges[0].Status
			if st == 404 || st == 400 {
				continue
			}
			c.Fail("C05", "late-registration-status", fmt.Sprintf("late-registration-status:%d", st), "call #%d %s to a resource unknown to the handler was answered %d, expected 404 / 400 [%s]", call.ID, call.Desc, st, world)
			return
		}
	}
	if len(w.strays) > 0 {
		c.Fail("C05", "stray-invocation", "stray-invocation", "resource code ran for a request that carries no call id: %s", w.strays[0].Field)
	}
}

func faultsFor(c *harness.Ctx) FaultCfg {
	f := FaultCfg{}
	switch c.Cfg["faults"] {
	case "lossy":
		// swarm: a random subset of the lossy kinds per run
		f.ReqLost, f.RespLost, f.RespTrunc, f.Cancel = c.Bool("f-reqlost"), c.Bool("f-resplost"), c.Bool("f-resptrunc"), c.Bool("f-cancel")
		f.StripVersion = c.Choose(4, "f-stripversion") == 3
		f.Rate = 25
	case "strip":
		f.StripMethod = true
		f.Rate = 60
	}
	return f
}

func (n *Net) grow(sim *kern.Sim, k int) {
	for i := 0; i < k; i++ {
		s := &slot{in: make(chan *Exchange, 1), out: make(chan *Exchange, 1)}
		s.task = sim.GoIdle(fmt.Sprintf("server%d", len(n.slots)), func() { n.serve(s) })
		n.slots = append(n.slots, s)
	}
}

func hasOnlyStrip(call *Call) bool {
	n := 0
	for _, e := range call.Exchanges {
		for _, f := range e.Faults {
			if f != "strip-method" {
				return false
			}
			n++
		}
	}
	return n > 0
}

// stripExpect400: the method header was dropped from a POST to a collection-like resource.
func stripExpect400(call *Call, w *World) bool {
	if !hasOnlyStrip(call) || call.Res.Kind != "collection" || len(call.Exchanges) == 0 {
		return false
	}
	return strings.HasPrefix(string(call.Exchanges[0].ReqBytes), "POST ")
}

func anyFault(call *Call) bool {
	if call.postFailed() {
		return true
	}
	for _, e := range call.Exchanges {
		if len(e.Faults) > 0 {
			return true
		}
	}
	return false
}

// checkCall: the reference model is the mock table — the expected outcome of a call is
// a pure function of that call alone.
func checkCall(c *harness.Ctx, w *World, call *Call, world string) {
	where := fmt.Sprintf("call #%d %s [%s]", call.ID, call.Desc, world)
	if !call.Done {
		c.Fail("C02", "call-unfinished", "call-unfinished", "%s never returned", where)
		return
	}
	if checkHostile(c, w, call, where) {
		return
	}
	if call.Panicked != "" {
		c.Fail("C04", "client-panic", "client-panic:"+call.Res.Kind+"."+call.Method, "%s panicked in the caller's goroutine: %s", where, call.Panicked)
		return
	}
	for _, e := range call.Exchanges {
		if e.Panic != "" {
			c.Fail("C08", "handler-panic", "handler-panic:"+sigOfPanic(e.Panic), "%s: a panic escaped ServeHTTP (crashed connection): %s", where, e.Panic)
			return
		}
	}
	if checkDamagedPath(c, w, call, where) {
		return
	}
	if checkByzantineClient(c, call, where) {
		return
	}
	checkWireExclusion(c, call, where)
	if c.Failed() {
		return
	}
	if stripExpect400(call, w) {
		c.Probe("header-stripped-post")
		e := call.Exchanges[0]
		if len(call.Inv) > 0 || e.Status != 400 {
			c.Fail("C05", "post-without-header", fmt.Sprintf("post-without-header:%s:%d", methodClass(call, w), e.Status), "%s: a POST to a collection without X-RestLi-Method must be answered 400 without touching resource code; status %d, invocations %d", where, e.Status, len(call.Inv))
		}
		return
	}
	if call.liedHeader && len(call.Exchanges) > 0 && len(call.Inv) == 0 && len(call.Filt) == 0 {
		// C05 leaves "a method header that contradicts the HTTP verb" unspecified: on a simple resource the verb
		// decides (checked below when the request is served), but a server may also refuse the contradiction
		// outright - with a 4xx and without touching resource code or filters. What it must never do is follow
		// the header to another method (misrouted) or fail with a 5xx.
		if st := call.Exchanges[0].Status; st >= 400 && st < 500 {
			c.Probe("contradicting-header-refused")
			return
		}
	}
	if call.wantDupReject {
		if call.Err == nil || len(call.Exchanges) > 0 {
			c.Fail("C16", "duplicate-not-refused", "duplicate-not-refused:"+call.Method, "%s: duplicate keys (under key equality) must be rejected before any request is sent; err=%v exchanges=%d", where, call.Err, len(call.Exchanges))
		} else {
			c.Probe("duplicate-key-rejected")
		}
		return
	}
	if call.superset && !anyFault(call) {
		c.Probe("batch-superset-reply")
		if call.Err == nil {
			c.Fail("C16", "unrequested-key-accepted", "unrequested-key-accepted:"+call.Method, "%s: the response mentions a key that was never requested; the client must return an error, it returned %s", where, renderArgs(call.Rets))
		}
		return
	}
	if call.MustReject {
		c.Probe("partial-update-touching-excluded-field")
		if call.Err == nil || len(call.Exchanges) > 0 {
			c.Fail("C07", "excluded-not-refused", "excluded-not-refused:"+call.Method, "%s touches a read-only / create-only field and must fail on the client before anything is sent; err=%v, exchanges=%d", where, call.Err, len(call.Exchanges))
		}
		return
	}
	// exactly-once dispatch to exactly the named method (C05a / C02)
	right := 0
	for _, inv := range call.Inv {
		if inv.Res == call.Res && inv.Field == "Mock"+call.Method {
			right++
		} else {
			c.Fail("C05", "misrouted", "misrouted:"+call.Method+"->"+inv.Field, "%s was dispatched to %s.%s%s", where, inv.Res.Name, inv.Field, renderArgs(inv.Args))
			return
		}
	}
	delivered := 0
	for _, e := range call.Exchanges {
		if e.Delivered {
			delivered++
		}
	}
	if right > delivered {
		c.Fail("C05", "over-dispatch", "over-dispatch", "%s: resource invoked %d times for %d delivered requests", where, right, delivered)
		return
	}
	faulty := anyFault(call)
	if hasOnlyStrip(call) {
		// an intermediary dropped X-RestLi-Method from a GET/PUT/DELETE (or from a request to a simple
		// resource / action set): the very method the client named must be inferred
		faulty = false
		c.Probe("header-stripped-inferred")
	}
	if !faulty && call.Out.Kind != "panic" {
		routed := right == 1 || (w.filtFail >= 0 && len(call.Exchanges) > 0 && len(call.Filt) > 0)
		checkFilters(c, w, call, where, routed || right == 1, right == 1 && call.Out.Kind == "value" || call.Out.Kind == "nilentity" && false)
		if c.Failed() {
			return
		}
		if w.filtFail >= 0 && w.nfilt > 0 && !w.viewFilter {
			if right != 0 {
				c.Fail("C05", "filter-failure-ignored", "filter-failure-ignored", "%s: filter %d refused the request but the resource ran", where, w.filtFail)
			} else if call.Err == nil {
				c.Fail("C05", "filter-failure-ignored", "filter-failure-success", "%s: filter %d refused the request but the client call succeeded", where, w.filtFail)
			}
			return
		}
	}
	if faulty {
		c.Probe("call-under-fault")
		// under lossy faults: an error, or exactly the model's value — never a wrong or partial one
		fs := strings.Join(faultsOf(call), ",")
		// a request that never arrived, a response that never arrived or arrived cut (C04: a malformed response
		// makes the call return an error), a call given up by its caller: none of them can end in success
		for _, must := range []string{"req-lost", "resp-lost", "resp-trunc", "cancel"} {
			if strings.Contains(fs, must) && call.Err == nil {
				c.Fail("C02", "fault-swallowed", "fault-swallowed:"+must+":"+call.Method, "%s returned success although fault %q hit its exchange (a lost or cut response must surface as an error)", where, must)
				return
			}
		}
		if strings.Contains(fs, "req-lost") && right != 0 {
			c.Fail("C02", "invoked-without-delivery", "invoked-without-delivery", "%s: the request was lost before delivery but the resource ran", where)
			return
		}
		// A response that merely lost its protocol-version header is complete otherwise. The library refuses it
		// today (UnsupportedRestLiProtocolVersion); none of the claimed properties demands that (the envelope
		// clause belongs to C03), so both answers are accepted: an error, or - checked below like any other
		// success - exactly the value the resource returned.
		if fs == "strip-version" && call.Err == nil {
			c.Probe("version-less-response-accepted")
		}
		if call.Err != nil {
			return
		}
		if right == 0 {
			c.Fail("C02", "phantom-success", "phantom-success:"+call.Method, "%s returned success although the resource never ran (faults %v)", where, faultsOf(call))
			return
		}
	} else {
		if len(call.Exchanges) == 0 {
			c.Fail("C02", "not-sent", "not-sent:"+call.Res.Kind+"."+call.Method, "%s: nothing was sent; client error: %v", where, call.Err)
			return
		}
		if right != 1 {
			e := call.Exchanges[0]
			c.Fail("C02", "not-dispatched", "not-dispatched:"+sigOfReject(call, e), "%s: resource method not invoked (invocations=%d); wire: %s -> status %d body %q; client error: %v",
				where, right, firstLine(e.ReqBytes), e.Status, clip(e.RespBody, 300), call.Err)
			return
		}
	}
	inv := call.Inv[0]
	// arguments as seen by the resource
	if len(inv.Args) != len(call.Expect) {
		c.Fail("C02", "arg-count", "arg-count", "%s: resource saw %d arguments, caller passed %d", where, len(inv.Args), len(call.Expect))
		return
	}
	for i := range inv.Args {
		exp, got := call.Expect[i], inv.Args[i]
		if isBatchKeyed(call.Method) && i == payloadIndex(inv.Args) && exp.Kind() == reflect.Slice {
			// batch ids are a set on the wire (sent in ascending encoded order): compare as sets
			exp, got = sortedSlice(exp), sortedSlice(got)
		}
		if ok, p := deepEq(exp, got, fmt.Sprintf("arg%d", i)); !ok {
			c.Fail("C02", "arg-mismatch", "arg-mismatch:"+argSig(call, i, p), "%s: the resource received a different argument %d: %s\n sent: %s\n got:  %s\n wire: %s", where, i, p, render(call.Expect[i]), render(inv.Args[i]), firstLine(call.Exchanges[0].ReqBytes))
			return
		}
	}
	if !faulty {
		checkOutcome(c, w, call, where)
		if c.Failed() {
			return
		}
	}
	if call.Out.Kind != "value" {
		return
	}
	if call.Err != nil {
		c.Fail("C02", "spurious-error", "spurious-error:"+call.Res.Kind+"."+call.Method+":"+errSig(call.Err), "%s: the resource succeeded but the client returned an error: %v\n status %d body %q", where, call.Err, lastEx(call).Status, clip(lastEx(call).RespBody, 300))
		return
	}
	want := inv.RetsUsed
	createdDefault = 201
	if call.Method == "Create" && call.Out.Status != 0 {
		createdDefault = call.Out.Status
	}
	defer func() { createdDefault = 201 }()
	for i := range call.Rets {
		exp := deepCopy(want[i])
		fillDefaults(exp)
		if ok, p := deepEq(exp, call.Rets[i], fmt.Sprintf("ret%d", i)); !ok {
			c.Fail("C02", "result-mismatch", "result-mismatch:"+call.Method+":"+pathSig(p), "%s: the client returned something else than the resource: %s\n resource: %s\n client:   %s\n body: %q", where, p, render(want[i]), render(call.Rets[i]), clip(lastEx(call).RespBody, 400))
			return
		}
	}
	checkKeyIdentity(c, call, where)
}

// checkKeyIdentity: batch results are filed under the caller's own key values
// (pointer identity for pointer keys) — C16.
func checkKeyIdentity(c *harness.Ctx, call *Call, where string) {
	if !isBatchKeyed(call.Method) || len(call.Rets) == 0 || call.Rets[0].IsNil() {
		return
	}
	ka := call.Args[payloadIndex(call.Args)]
	var orig []reflect.Value
	if ka.Kind() == reflect.Map {
		orig = ka.MapKeys()
	} else {
		for i := 0; i < ka.Len(); i++ {
			orig = append(orig, ka.Index(i))
		}
	}
	if len(orig) == 0 || orig[0].Kind() != reflect.Ptr {
		return
	}
	c.Probe("pointer-keyed-batch")
	resp := call.Rets[0].Elem()
	for _, fname := range []string{"Results", "Statuses", "Errors"} {
		f := resp.FieldByName(fname)
		if !f.IsValid() || f.IsNil() {
			continue
		}
		for _, k := range f.MapKeys() {
			found := false
			for _, o := range orig {
				if o.Pointer() == k.Pointer() {
					found = true
				}
			}
			if !found {
				c.Fail("C16", "key-identity", "key-identity:"+fname, "%s: %s is keyed by %s which is not one of the caller's own key values (a re-decoded copy?)", where, fname, render(k))
				return
			}
		}
	}
}

func sortedSlice(v reflect.Value) reflect.Value {
	n := reflect.MakeSlice(v.Type(), v.Len(), v.Len())
	reflect.Copy(n, v)
	for i := 1; i < n.Len(); i++ {
		for j := i; j > 0 && render(n.Index(j)) < render(n.Index(j-1)); j-- {
			a, b := n.Index(j).Interface(), n.Index(j-1).Interface()
			n.Index(j).Set(reflect.ValueOf(b))
			n.Index(j - 1).Set(reflect.ValueOf(a))
		}
	}
	return n
}

func lastEx(call *Call) *Exchange {
	if len(call.Exchanges) == 0 {
		return &Exchange{}
	}
	return call.Exchanges[len(call.Exchanges)-1]
}

func faultsOf(call *Call) []string {
	var out []string
	if call.postFailed() {
		out = append(out, "post-filter-fail")
	}
	for _, e := range call.Exchanges {
		out = append(out, e.Faults...)
	}
	return out
}

func clip(b []byte, n int) string {
	if len(b) > n {
		return string(b[:n]) + "..."
	}
	return string(b)
}

func sigOfPanic(p string) string {
	p = strings.SplitN(p, "\n", 2)[0]
	if len(p) > 60 {
		p = p[:60]
	}
	return strings.ReplaceAll(p, " ", "_")
}

func errSig(err error) string {
	s := fmt.Sprintf("%T", err)
	return strings.ReplaceAll(s, " ", "")
}

// sigOfReject: why was a well-formed call not dispatched — by status and mount, with
// the distinguishing feature of the key when the path is to blame.
func sigOfReject(call *Call, e *Exchange) string {
	return fmt.Sprintf("%s.%s:%d", call.Res.Kind, call.Method, e.Status)
}

func argSig(call *Call, i int, p string) string {
	return fmt.Sprintf("%s.%s:%s", call.Res.Kind, call.Method, pathSig(p))
}

// pathSig strips values from a difference path: "ret0.Results[&{...}].X: 1 vs 2" -> "ret0.Results[].X"
func pathSig(p string) string {
	if i := strings.Index(p, ": "); i >= 0 {
		p = p[:i]
	}
	var b strings.Builder
	depth := 0
	for _, r := range p {
		switch {
		case r == '[':
			depth++
			if depth == 1 {
				b.WriteString("[]")
			}
		case r == ']':
			depth--
		case depth == 0:
			b.WriteRune(r)
		}
	}
	return b.String()
}

func TestS4(t *testing.T) {
	// the server logs recovered panics through the standard logger: a write(2) to stderr in the middle of a run is
	// a blocking system call, and what the scheduler does around one depends on real time (back end B)
	log.SetOutput(io.Discard)
	harness.Main(t, map[string]harness.Scenario{"rpc": rpc, "tunnel": tunnel, "canon": canon})
}
