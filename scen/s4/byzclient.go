//go:build vscratch

package s4

import (
	"bytes"
	"encoding/json"
	"fmt"
	"io"
	"net/http"
	"reflect"
	"strings"

	"verif/sim/harness"
)

// C07, exchange half: what is transmitted, and what the server refuses.

// excludedOnWire looks for a value at an excluded path in a request body as it went
// over the wire (parsed with encoding/json, independent of the library).
func excludedOnWire(body []byte, method string, paths [][]string) string {
	if len(body) == 0 || len(paths) == 0 {
		return ""
	}
	var doc interface{}
	d := json.NewDecoder(bytes.NewReader(body))
	d.UseNumber()
	if err := d.Decode(&doc); err != nil {
		return ""
	}
	var roots []interface{}
	obj, _ := doc.(map[string]interface{})
	switch method {
	case "Create", "Update":
		roots = []interface{}{doc}
	case "BatchCreate":
		if a, ok := obj["elements"].([]interface{}); ok {
			roots = a
		}
	case "BatchUpdate":
		if m, ok := obj["entities"].(map[string]interface{}); ok {
			for _, v := range m {
				roots = append(roots, v)
			}
		}
	case "PartialUpdate":
		roots = []interface{}{obj["patch"]}
	case "BatchPartialUpdate":
		if m, ok := obj["entities"].(map[string]interface{}); ok {
			for _, v := range m {
				if e, ok := v.(map[string]interface{}); ok {
					roots = append(roots, e["patch"])
				}
			}
		}
	}
	for _, r := range roots {
		for _, p := range paths {
			if at := findPath(r, p, ""); at != "" {
				return at
			}
		}
	}
	return ""
}

// findPath: a value at path p below v; inside a patch, $set is transparent and a
// $delete list naming the leaf counts as touching it.
func findPath(v interface{}, p []string, at string) string {
	if len(p) == 0 {
		return at
	}
	switch x := v.(type) {
	case map[string]interface{}:
		if s, ok := x["$set"]; ok {
			if r := findPath(s, p, at+".$set"); r != "" {
				return r
			}
		}
		if d, ok := x["$delete"].([]interface{}); ok && len(p) == 1 {
			for _, n := range d {
				if n == p[0] {
					return at + ".$delete[" + p[0] + "]"
				}
			}
		}
		if p[0] == "*" {
			for k, e := range x {
				if strings.HasPrefix(k, "$") {
					continue
				}
				if r := findPath(e, p[1:], at+"."+k); r != "" {
					return r
				}
			}
			return ""
		}
		if e, ok := x[p[0]]; ok {
			return findPath(e, p[1:], at+"."+p[0])
		}
	case []interface{}:
		if p[0] == "*" {
			for i, e := range x {
				if r := findPath(e, p[1:], fmt.Sprintf("%s[%d]", at, i)); r != "" {
					return r
				}
			}
		}
	}
	return ""
}

// checkWireExclusion: nothing at an excluded path ever leaves the client.
func checkWireExclusion(c *harness.Ctx, call *Call, where string) {
	paths := excludedFor(call.Res, call.Method)
	if len(paths) == 0 {
		return
	}
	for _, e := range call.Exchanges {
		if hasFault(e, "byzantine-client") {
			continue
		}
		_, _, _, body := parseWire(e.ReqBytes)
		if at := excludedOnWire(body, call.Method, paths); at != "" {
			c.Fail("C07", "excluded-transmitted", "excluded-transmitted:"+call.Method, "%s: the request body carries a value at an excluded path (%s): %s", where, at, clip(body, 400))
			return
		}
		c.Probe("wire-exclusion-checked")
	}
}

// byzantineClient makes the request of a planned call carry a value at an excluded
// path, the way a foreign or buggy client would.
func byzantineClient(c *harness.Ctx, call *Call) {
	paths := excludedFor(call.Res, call.Method)
	if len(paths) == 0 {
		return
	}
	path := paths[c.Choose(len(paths), "byz-path")]
	viaDelete := c.Choose(3, "byz-via-delete") == 2
	call.Mutate = func(req *http.Request, e *Exchange) {
		if req.Body == nil {
			return
		}
		raw, _ := io.ReadAll(req.Body)
		var doc interface{}
		d := json.NewDecoder(bytes.NewReader(raw))
		d.UseNumber()
		if err := d.Decode(&doc); err != nil {
			req.Body = io.NopCloser(bytes.NewReader(raw))
			return
		}
		obj, _ := doc.(map[string]interface{})
		inserted := false
		each := func(f func(root map[string]interface{}, patch bool)) {
			switch call.Method {
			case "Create", "Update":
				f(obj, false)
			case "BatchCreate":
				if a, ok := obj["elements"].([]interface{}); ok {
					for _, x := range a {
						if m, ok := x.(map[string]interface{}); ok {
							f(m, false)
							break
						}
					}
				}
			case "BatchUpdate":
				if m, ok := obj["entities"].(map[string]interface{}); ok {
					for _, k := range sortedStrKeys(m) {
						if mm, ok := m[k].(map[string]interface{}); ok {
							f(mm, false)
							break
						}
					}
				}
			case "PartialUpdate":
				if m, ok := obj["patch"].(map[string]interface{}); ok {
					f(m, true)
				}
			case "BatchPartialUpdate":
				if m, ok := obj["entities"].(map[string]interface{}); ok {
					for _, k := range sortedStrKeys(m) {
						if mm, ok := m[k].(map[string]interface{}); ok {
							if p, ok := mm["patch"].(map[string]interface{}); ok {
								f(p, true)
								break
							}
						}
					}
				}
			}
		}
		each(func(root map[string]interface{}, patch bool) {
			inserted = insertAt(root, path, patch, viaDelete)
		})
		if !inserted {
			req.Body = io.NopCloser(bytes.NewReader(raw))
			return
		}
		out, _ := json.Marshal(doc)
		req.Body = io.NopCloser(bytes.NewReader(out))
		req.ContentLength = int64(len(out))
		req.GetBody = nil
		tag := "byzantine-client:" + strings.Join(path, "/")
		if viaDelete && strings.Contains(string(out), `"$delete"`) && !deletable(call, path) {
			// the leaf is a required field: no client can ask for its deletion, and a server may either refuse the
			// patch or - as the root module does - drop the meaningless entry; told apart in the signature
			tag += ":delete-of-required-field"
		}
		e.Faults = append(e.Faults, tag)
		c.Fault("byzantine-client")
		call.byzClient = true
	}
}

func sortedStrKeys(m map[string]interface{}) []string {
	var ks []string
	for k := range m {
		ks = append(ks, k)
	}
	for i := 1; i < len(ks); i++ {
		for j := i; j > 0 && ks[j] < ks[j-1]; j-- {
			ks[j], ks[j-1] = ks[j-1], ks[j]
		}
	}
	return ks
}

// insertAt puts a value at the excluded path below root (creating the containers on the
// way); in a patch the value goes below $set (or the leaf is named in $delete).
func insertAt(root map[string]interface{}, path []string, patch, viaDelete bool) bool {
	if patch {
		if len(path) == 1 {
			if viaDelete {
				d, _ := root["$delete"].([]interface{})
				root["$delete"] = append(d, path[0])
				return true
			}
			s, ok := root["$set"].(map[string]interface{})
			if !ok {
				s = map[string]interface{}{}
				root["$set"] = s
			}
			s[path[0]] = leafValue(path[0])
			return true
		}
		if path[1] == "*" {
			// set the container wholesale with an offending member
			s, ok := root["$set"].(map[string]interface{})
			if !ok {
				s = map[string]interface{}{}
				root["$set"] = s
			}
			return insertAt(s, path, false, false)
		}
		// nested patch of the record field
		n, ok := root[path[0]].(map[string]interface{})
		if !ok {
			if s, ok := root["$set"].(map[string]interface{}); ok {
				if _, clash := s[path[0]]; clash {
					return insertAt(s, path, false, false)
				}
			}
			n = map[string]interface{}{}
			root[path[0]] = n
		}
		return insertAt(n, path[1:], true, viaDelete)
	}
	if len(path) == 1 {
		root[path[0]] = leafValue(path[0])
		return true
	}
	switch path[1] {
	case "*":
		switch cont := root[path[0]].(type) {
		case []interface{}:
			if len(cont) == 0 {
				m := map[string]interface{}{"a": "z"}
				root[path[0]] = []interface{}{m}
				return insertAt(m, path[2:], false, false)
			}
			if m, ok := cont[0].(map[string]interface{}); ok {
				return insertAt(m, path[2:], false, false)
			}
		case map[string]interface{}:
			for _, k := range sortedStrKeys(cont) {
				if m, ok := cont[k].(map[string]interface{}); ok {
					return insertAt(m, path[2:], false, false)
				}
			}
			m := map[string]interface{}{"a": "z"}
			cont["k"] = m
			return insertAt(m, path[2:], false, false)
		default:
			m := map[string]interface{}{"a": "z"}
			if path[0] == "items" {
				root[path[0]] = []interface{}{m}
			} else {
				root[path[0]] = map[string]interface{}{"k": m}
			}
			return insertAt(m, path[2:], false, false)
		}
	default:
		n, ok := root[path[0]].(map[string]interface{})
		if !ok {
			n = map[string]interface{}{"a": "z"}
			root[path[0]] = n
		}
		return insertAt(n, path[1:], false, false)
	}
	return false
}

func leafValue(name string) interface{} {
	switch name {
	case "id", "b":
		return 7
	}
	return "offending"
}

func checkByzantineClient(c *harness.Ctx, call *Call, where string) bool {
	if !call.byzClient || len(call.Exchanges) == 0 {
		return false
	}
	e := call.Exchanges[0]
	_, _, _, body := parseWire(e.ReqBytes)
	if len(call.Inv) > 0 {
		sig := "excluded-accepted:" + call.Method + ":" + strings.TrimPrefix(e.Faults[len(e.Faults)-1], "byzantine-client:")
		if strings.HasSuffix(sig, ":delete-of-required-field") {
			sig = "excluded-accepted:delete-of-required-field"
		}
		c.Fail("C07", "excluded-accepted", sig, "%s: a request carrying a value at an excluded path (%v) reached the resource; body %s", where, e.Faults, clip(body, 400))
		return true
	}
	if e.Status != 400 {
		c.Fail("C07", "excluded-status", fmt.Sprintf("excluded-status:%s:%d", call.Method, e.Status), "%s: a request carrying a value at an excluded path (%v) was answered %d, not 400; body %s -> %q", where, e.Faults, e.Status, clip(body, 300), clip(e.RespBody, 200))
		return true
	}
	c.Probe("byzantine-client-refused")
	return true
}

// deletable: does the generated partial-update type of the call's entity let the field at path be deleted (is it
// optional or defaulted)? Walks the nested *_PartialUpdate structs by field name.
func deletable(call *Call, path []string) bool {
	var t reflect.Type
	for _, a := range call.Args {
		at := a.Type()
		if at.Kind() == reflect.Map {
			at = at.Elem()
		}
		if at.Kind() == reflect.Ptr && strings.HasSuffix(at.Elem().Name(), "_PartialUpdate") {
			t = at.Elem()
		}
	}
	if t == nil {
		return true
	}
	title := func(s string) string {
		if s == "" {
			return s
		}
		return strings.ToUpper(s[:1]) + s[1:]
	}
	for i, seg := range path {
		if i == len(path)-1 {
			df, ok := t.FieldByName("Delete_Fields")
			if !ok {
				return true
			}
			_, has := df.Type.FieldByName(title(seg))
			return has
		}
		f, ok := t.FieldByName(title(seg))
		if !ok || f.Type.Kind() != reflect.Ptr || !strings.HasSuffix(f.Type.Elem().Name(), "_PartialUpdate") {
			return true
		}
		t = f.Type.Elem()
	}
	return true
}
