package s1

import (
	"fmt"

	"github.com/PapaCharlie/go-restli/v2/fnv1a"
	"github.com/PapaCharlie/go-restli/v2/restlicodec"

	"verif/sim/harness"
	"verif/sim/kern"
)

// Custom typeref registry (restlicodec.customTyperefAdapters, a sync.Map) used from
// several tasks: registrations of distinct types race with look-ups / use of already
// registered ones. Oracle (C17): no race report, every look-up of a type registered
// before the run's start returns that type's own adapter (no leakage between types).

type ctA int32
type ctB int32
type ctC string
type ctD int64

func init() { scenarios["registry"] = registry }

func regT[P, T any](m func(T) (P, error), u func(P) (T, error)) {
	restlicodec.RegisterCustomTyperef[P, T](m, u, func(t T) fnv1a.Hash { return fnv1a.ZeroHash() }, func(a, b T) bool { return true })
}

func registry(c *harness.Ctx) {
	s := c.NewSim()
	restlicodec.VerifResetCustomTyperefs()
	regs := []func(){
		func() {
			regT[int32, ctA](func(t ctA) (int32, error) { return int32(t) + 1, nil }, func(p int32) (ctA, error) { return ctA(p - 1), nil })
		},
		func() {
			regT[int32, ctB](func(t ctB) (int32, error) { return int32(t) + 2, nil }, func(p int32) (ctB, error) { return ctB(p - 2), nil })
		},
		func() {
			regT[string, ctC](func(t ctC) (string, error) { return "c" + string(t), nil }, func(p string) (ctC, error) { return ctC(p[1:]), nil })
		},
		func() {
			regT[int64, ctD](func(t ctD) (int64, error) { return int64(t) + 4, nil }, func(p int64) (ctD, error) { return ctD(p - 4), nil })
		},
	}
	uses := []func() string{
		func() string {
			w := restlicodec.NewCompactJsonWriter()
			if err := restlicodec.CustomTyperefMarshaler[ctA]()(ctA(10), w); err != nil {
				return err.Error()
			}
			if got := w.Finalize(); got != "11" {
				return "ctA encoded as " + got
			}
			return ""
		},
		func() string {
			w := restlicodec.NewCompactJsonWriter()
			if err := restlicodec.CustomTyperefMarshaler[ctB]()(ctB(10), w); err != nil {
				return err.Error()
			}
			if got := w.Finalize(); got != "12" {
				return "ctB encoded as " + got
			}
			return ""
		},
		func() string {
			w := restlicodec.NewCompactJsonWriter()
			if err := restlicodec.CustomTyperefMarshaler[ctC]()(ctC("x"), w); err != nil {
				return err.Error()
			}
			if got := w.Finalize(); got != `"cx"` {
				return "ctC encoded as " + got
			}
			return ""
		},
		func() string {
			w := restlicodec.NewCompactJsonWriter()
			if err := restlicodec.CustomTyperefMarshaler[ctD]()(ctD(10), w); err != nil {
				return err.Error()
			}
			if got := w.Finalize(); got != "14" {
				return "ctD encoded as " + got
			}
			return ""
		},
	}
	// a random subset is registered up front (kernel goroutine, before any task runs);
	// the rest is registered by tasks during the run
	pre := c.Choose(1<<len(regs), "preregistered")
	if pre == 0 {
		pre = 1
	}
	var late []int
	for i := range regs {
		if pre&(1<<i) != 0 {
			regs[i]()
		} else {
			late = append(late, i)
		}
	}
	desc := fmt.Sprintf("pre=%04b ", pre)
	for _, i := range late {
		i := i
		desc += fmt.Sprintf("reg%d ", i)
		s.Go(fmt.Sprintf("register%d", i), func() {
			kern.Yield("before-register")
			regs[i]()
		})
	}
	nusers := 1 + c.Choose(3, "users")
	errs := make([]string, nusers)
	for u := 0; u < nusers; u++ {
		u := u
		n := 1 + c.Choose(3, "uses")
		var which []int
		for k := 0; k < n; k++ {
			// only types registered before the run may be used (an unregistered look-up panics by design)
			var cand []int
			for i := range regs {
				if pre&(1<<i) != 0 {
					cand = append(cand, i)
				}
			}
			which = append(which, cand[c.Choose(len(cand), "usetype")])
		}
		desc += fmt.Sprintf("u%d:%v ", u, which)
		s.Go(fmt.Sprintf("user%d", u), func() {
			for _, w := range which {
				kern.Yield("before-use")
				if e := uses[w](); e != "" && errs[u] == "" {
					errs[u] = e
				}
			}
		})
	}
	c.Sample(desc)
	c.Case(desc)
	s.Run(5000)
	if s.Dead || s.Budget {
		c.Fail("C17", "registry-deadlock", "registry-deadlock", "registry tasks did not finish: %s", s.DeadInfo)
		return
	}
	for _, t := range s.Tasks() {
		if t.Panic != nil {
			c.Fail("C17", "registry-panic", "registry-panic", "task %s panicked: %v\n%s", t.Name, t.Panic, t.PanicStk)
			return
		}
	}
	for u, e := range errs {
		if e != "" {
			c.Fail("C17", "registry-leak", "registry-leak", "user %d: %s (%s)", u, e, desc)
			return
		}
	}
	// after the run every type is registered and answers with its own adapter
	for i, f := range uses {
		if e := f(); e != "" {
			c.Fail("C17", "registry-final", "registry-final", "type %d after run: %s", i, e)
		}
	}
	if len(late) >= 2 {
		c.Probe("two-concurrent-registrations")
	}
}
