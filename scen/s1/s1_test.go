// Scenario S1: the real d2/lazymap (sync swapped for the scheduler-aware shim by
// overlay) under simulator-chosen interleavings; history checked with porcupine
// against a sequential map with compute-if-absent.
package s1

import (
	"fmt"
	"testing"
	"time"

	"github.com/PapaCharlie/go-restli/v2/d2/lazymap"
	"github.com/anishathalye/porcupine"

	"verif/sim/harness"
	"verif/sim/kern"
)

const (
	opLoadOrStore = iota
	opLoad
	opStore
)

type in struct {
	kind  int
	key   int
	myval int
}
type out struct {
	val      int // -1 absent
	ok       bool
	computed bool
}
type rec struct {
	in       in
	out      out
	call, rt int64
	client   int
	done     bool
	bad      string
}

const nKeys = 2

var model = porcupine.Model{
	Init: func() interface{} { return [nKeys]int{-1, -1} },
	Step: func(state, input, output interface{}) (bool, interface{}) {
		st := state.([nKeys]int)
		i, o := input.(in), output.(out)
		switch i.kind {
		case opLoadOrStore:
			if st[i.key] >= 0 {
				return !o.computed && o.val == st[i.key], st
			}
			st[i.key] = i.myval
			return o.computed && o.val == i.myval, st
		case opLoad:
			if st[i.key] < 0 {
				return !o.ok, st
			}
			return o.ok && o.val == st[i.key], st
		default:
			st[i.key] = i.myval
			return true, st
		}
	},
	Equal: func(a, b interface{}) bool { return a == b },
	DescribeOperation: func(input, output interface{}) string {
		i, o := input.(in), output.(out)
		return fmt.Sprintf("%s(k%d,%d)->%+v", [...]string{"LoadOrStore", "Load", "Store"}[i.kind], i.key, i.myval, o)
	},
}

var computes [nKeys]int

//go:norace
func incCompute(k int) { computes[k]++ }

//go:norace
func resetComputes() { computes = [nKeys]int{} }

func opName(i in) string {
	return fmt.Sprintf("%s(k%d,v%d)", [...]string{"LoadOrStore", "Load", "Store"}[i.kind], i.key, i.myval)
}

func lazy(c *harness.Ctx) {
	s := c.NewSim()
	var m lazymap.LazySyncMap
	resetComputes()
	keys := nKeys
	if c.Cfg["keys"] == "1" {
		keys = 1
	}
	ntasks := 2 + c.Choose(3, "ntasks")
	recs := make([][]rec, ntasks)
	next := 1
	desc := ""
	for t := 0; t < ntasks; t++ {
		t := t
		nops := 1 + c.Choose(3, "nops")
		ops := make([]in, nops)
		for i := range ops {
			ops[i] = in{kind: c.Choose(3, "op"), key: c.Choose(keys, "key"), myval: next}
			next++
			desc += fmt.Sprintf("t%d:%s ", t, opName(ops[i]))
		}
		recs[t] = make([]rec, nops)
		s.Go(fmt.Sprintf("client%d", t), func() {
			for i, op := range ops {
				r := &recs[t][i]
				r.in, r.client = op, t
				r.call = kern.Seq()
				kern.Note("op-invoke", opName(op), "")
				switch op.kind {
				case opLoadOrStore:
					v := m.LoadOrStore(op.key, func() interface{} {
						r.out.computed = true
						incCompute(op.key)
						kern.Yield("compute")
						if c.Cfg["deepcompute"] != "" {
							kern.Yield("compute2")
						}
						return op.myval
					})
					if iv, ok := v.(int); ok {
						r.out.val = iv
					} else {
						r.bad = fmt.Sprintf("LoadOrStore returned a %T, not a value", v)
					}
				case opLoad:
					v, ok := m.Load(op.key)
					r.out.ok = ok
					if !ok {
						r.out.val = -1
					} else if iv, isInt := v.(int); isInt {
						r.out.val = iv
					} else {
						r.bad = fmt.Sprintf("Load returned a %T, not a value", v)
					}
				case opStore:
					m.Store(op.key, op.myval)
				}
				r.rt = kern.Seq()
				r.done = true
				if kern.Tracing() {
					kern.Note("op-return", opName(op), fmt.Sprintf("%+v", r.out))
				}
			}
		})
	}
	c.Sample(desc)
	// quiescent loads after every task has finished (taken inside the run: on back end B the map may hold
	// primitives that belong to the run's bubble)
	type finalLoad struct {
		v1, v2   interface{}
		ok1, ok2 bool
	}
	var finals [nKeys]finalLoad
	s.RunThen(5000, func() {
		for k := 0; k < nKeys; k++ {
			f := &finals[k]
			f.v1, f.ok1 = m.Load(k)
			f.v2, f.ok2 = m.Load(k)
		}
	})
	c.Case(desc)
	if s.Dead {
		c.Fail("C18", "deadlock", "deadlock", "no task enabled, unfinished: %s; workload %s", s.DeadInfo, desc)
		return
	}
	if s.Budget {
		c.Fail("C18", "no-progress", "no-progress", "5000 kernel steps without completion; workload %s", desc)
		return
	}
	for _, t := range s.Tasks() {
		if t.Panic != nil {
			c.Fail("C18", "panic", "panic", "task %s panicked: %v\n%s", t.Name, t.Panic, t.PanicStk)
			return
		}
	}
	var ops []porcupine.Operation
	nLoS := [nKeys]int{}
	for _, rs := range recs {
		for _, r := range rs {
			if r.bad != "" {
				c.Fail("C18", "placeholder-leak", "placeholder-leak", "%s: %s; workload %s", opName(r.in), r.bad, desc)
				return
			}
			if r.in.kind == opLoadOrStore {
				nLoS[r.in.key]++
			}
			ops = append(ops, porcupine.Operation{ClientId: r.client, Input: r.in, Call: r.call, Output: r.out, Return: r.rt})
		}
	}
	for k := 0; k < nKeys; k++ {
		if nLoS[k] >= 2 {
			c.Probe("racing-loadorstore-same-key")
		}
	}
	// invariants during the run
	for k, n := range computes {
		// Store funnels through LoadOrStore with its own closure: count only user computes
		if n > 1 {
			c.Fail("C18", "double-compute", "double-compute", "compute for key %d ran %d times; workload %s", k, n, desc)
			return
		}
	}
	res, info := porcupine.CheckOperationsVerbose(model, ops, 10*time.Second)
	_ = info
	switch res {
	case porcupine.Illegal:
		h := ""
		for _, rs := range recs {
			for _, r := range rs {
				h += fmt.Sprintf("[c%d %s -> %+v @%d..%d] ", r.client, opName(r.in), r.out, r.call, r.rt)
			}
		}
		c.Fail("C18", "linearizability", "linearizability", "history is not linearizable w.r.t. a map with compute-if-absent: %s", h)
	case porcupine.Unknown:
		c.Probe("porcupine-timeout-inconclusive")
	}
	// after quiescence: Load agrees with some linearization — check final value stability
	for k := 0; k < nKeys; k++ {
		v1, ok1, v2, ok2 := finals[k].v1, finals[k].ok1, finals[k].v2, finals[k].ok2
		if ok1 != ok2 || v1 != v2 {
			c.Fail("C18", "final-unstable", "final-unstable", "two quiescent loads of key %d differ: %v,%v vs %v,%v", k, v1, ok1, v2, ok2)
		}
		if ok1 {
			if _, isInt := v1.(int); !isInt {
				c.Fail("C18", "placeholder-leak", "placeholder-leak", "quiescent Load(k%d) returned a %T", k, v1)
			}
		}
	}
}

// more scenarios of this package register themselves here (files that do not apply to a module
// variant are simply not copied into its scratch module)
var scenarios = map[string]harness.Scenario{"lazymap": lazy}

func TestS1(t *testing.T) {
	harness.Main(t, scenarios)
}
