//go:build go1.25

// Scenario S3 (d2-zk), back end B: the complete D2 resolver — d2.Client.getServiceUris,
// TreeCache, the update loops — on the real github.com/go-zookeeper/zk client, talking
// to a simulated ZooKeeper (sim/fakezk) over net.Pipe inside a testing/synctest bubble:
// every timer reads the fake clock, minutes of ZooKeeper timeouts cost microseconds.
// synctest does not choose which goroutine runs, so the simulator controls what is
// nondeterministic in a real deployment instead — when the ensemble answers, which
// znodes change, when connections drop, when resolvers start — and delivers one
// stimulus at a time, waiting for quiescence after each. Runs are pinned to one P.
package s3

import (
	"encoding/json"
	"fmt"
	"hash/fnv"
	"net/url"
	"os"
	"runtime"
	"sort"
	"strings"
	"testing"
	"testing/synctest"
	"time"

	"github.com/PapaCharlie/go-restli/v2/d2"
	"github.com/go-zookeeper/zk"

	"verif/sim/fakezk"
	"verif/sim/harness"
)

type nolog struct{}

func (nolog) Printf(string, ...interface{}) {}

const (
	svc     = "svc"
	cluster = "Clu"
)

var schemeSets = [][]string{{}, {"https", "http"}, {"http"}, {"https"}}
var hostPool = []string{"http://h1:80", "https://h1:443", "http://h2:80", "https://h2:443", "https://h3:443"}
var nodePool = []string{"n1", "n2", "n3"}

func svcJSON(schemes []string) []byte { return svcJSONFor(schemes, cluster) }

func svcJSONFor(schemes []string, cl string) []byte {
	b, _ := json.Marshal(map[string]interface{}{"serviceName": svc, "clusterName": cl, "prioritizedSchemes": schemes})
	return b
}

// cluster2: the service definition can move to a second cluster (a resolver then loads that cluster's URIs on a
// client whose service entry is already loaded)
const cluster2 = "Clu2"

type announce struct {
	node  string
	kind  int // 0 valid 1 delete 2 malformed 3 weightless
	hosts map[string]float64
}

func (a announce) payload() []byte {
	switch a.kind {
	case 2:
		if len(a.hosts) == 1 {
			return []byte(`{"weights": {"http://m1:80": 1, "http://bad host:80:80": 1, "https://m2:443": 2}, "uriSpecificProperties": {"http://m1:80": {"com.linkedin.app.name": "x"}}}`)
		}
		return []byte(`{"weights": {"http://broken:80": `)
	case 3:
		return []byte(`{"weights": {}, "partitionDesc": {"http://p:80": {"0": {"weight": 1}}}}`)
	}
	b, _ := json.Marshal(map[string]interface{}{"weights": a.hosts, "clusterName": cluster})
	return b
}

func genAnnounce(c *harness.Ctx) announce {
	a := announce{node: nodePool[c.Choose(len(nodePool), "node")]}
	a.kind = c.C.Weighted("ann-kind", 7, 3, 2, 1)
	if c.Cfg["pure"] != "" {
		// only valid announcements and deletions (the histories on which convergence is asserted)
		a.kind = c.C.Weighted("ann-kind-pure", 3, 2)
		a.node = nodePool[c.Choose(2, "node-pure")]
	}
	if a.kind == 2 && c.Bool("malformed-shape") {
		a.hosts = map[string]float64{"x": 1} // marks the "one bad host among several" shape
	}
	if a.kind == 0 {
		a.hosts = map[string]float64{}
		for i := 0; i < 1+c.Choose(2, "nhosts"); i++ {
			a.hosts[hostPool[c.Choose(len(hostPool), "host")]] = []float64{1, 2, 0, 0.5}[c.Choose(4, "weight")]
		}
	}
	return a
}

type resolveRec struct {
	start, end time.Duration
	host, err  string
	done       bool
	fresh      bool
}

// zkrun is one bubble.
func zkrun(c *harness.Ctx) {
	defer func() {
		// synctest.Test panics when goroutines of the bubble are still blocked at its end
		// (zk.Conn's loops, TreeCache): that is expected here, not a finding
		if r := recover(); r != nil {
			msg := fmt.Sprint(r)
			if !strings.Contains(msg, "deadlock") && !strings.Contains(msg, "blocked") && !strings.Contains(msg, "bubble") {
				c.Fail("HARNESS", "bubble-panic", "bubble-panic", "%v", r)
			}
		}
	}()
	synctest.Test(c.T, func(t *testing.T) { bubble(c) })
}

// seededSource pins d2's package-level random generator (it is seeded from the wall clock at
// process start, outside any bubble) to values drawn up front from the choice stream.
type seededSource struct {
	vals []int64
	i    int
}

func (s *seededSource) Int63() int64 { s.i++; return s.vals[s.i%len(s.vals)] }
func (s *seededSource) Seed(int64)   {}

func pinRandomness(c *harness.Ctx) {
	src := &seededSource{}
	for i := 0; i < 32; i++ {
		src.vals = append(src.vals, int64(c.Choose(1<<20, "rng"))<<43)
	}
	d2.VerifSetRngSource(src)
	// select's poll order and the order of simultaneous fake timers (runtime seam, see overlayfiles/runtime)
	// ... and whether a goroutine that wakes another one is preempted right after (never, or one time in 2/4/16)
	runtime.VerifSeed(uint64(c.Choose(1<<30, "rtseed")), []uint32{0, 4, 2, 16}[c.Choose(4, "preempt")])
}

func bubble(c *harness.Ctx) {
	pinRandomness(c)
	pre0 := runtime.VerifPreemptions
	defer func() {
		if runtime.VerifPreemptions > pre0 {
			c.Probe("waker-preempted-after-wake-up")
		}
	}()
	epoch := time.Now()
	now := func() time.Duration { return time.Since(epoch) }
	z := fakezk.New()
	// pre-drawn latency table: the order in which server goroutines ask for a latency
	// never feeds back into the choice stream
	var lat []time.Duration
	for i := 0; i < 16; i++ {
		lat = append(lat, time.Duration(c.Choose(4, "latency"))*7*time.Millisecond)
	}
	li := 0
	z.Latency = func(op int32, path string) time.Duration { li++; return lat[li%len(lat)] }
	schemes := schemeSets[c.Choose(len(schemeSets), "schemes")]
	z.Set("/d2", nil)
	z.Set("/d2/services", nil)
	z.Set("/d2/uris", nil)
	z.Set("/d2/services/"+svc, svcJSON(schemes))
	z.Set("/d2/uris/"+cluster, []byte{})
	z.Set("/d2/uris/"+cluster2, []byte{})
	curCluster, curSchemes := cluster, schemes
	everAnnounced := map[string]bool{}
	everSchemes := map[string]bool{}
	noPrio := len(schemes) == 0
	for _, s := range schemes {
		everSchemes[s] = true
	}
	annCluster := cluster
	apply := func(a announce) {
		p := "/d2/uris/" + annCluster + "/" + a.node
		if a.kind == 1 {
			z.Delete(p)
			return
		}
		z.Set(p, a.payload())
		if a.kind == 0 {
			for h := range a.hosts {
				everAnnounced[h] = true
			}
		}
	}
	var desc []string
	for i := 0; i < c.Choose(3, "npre"); i++ {
		a := genAnnounce(c)
		desc = append(desc, fmt.Sprintf("pre-announce %s kind=%d %v", a.node, a.kind, a.hosts))
		apply(a)
	}
	conn, _, err := zk.Connect([]string{"127.0.0.1:2181"}, 10*time.Second, zk.WithDialer(z.Dial), zk.WithLogger(nolog{}))
	if err != nil {
		c.Fail("HARNESS", "zk-connect", "zk-connect", "%v", err)
		return
	}
	timeout := []time.Duration{2 * time.Second, 5 * time.Second, 0}[c.Choose(3, "timeout")]
	effTimeout := timeout
	if effTimeout == 0 {
		effTimeout = d2.DefaultInitialUriWatchTimeout
	}
	cl := &d2.Client{Conn: conn, InitialZkWatchTimeout: timeout}
	var recs []*resolveRec
	connFaults := 0
	firstWave := true
	startResolvers := func(n int) {
		for i := 0; i < n; i++ {
			r := &resolveRec{start: now(), fresh: firstWave}
			recs = append(recs, r)
			go func() {
				u, err := cl.ResolveHostnameAndContextForQuery(svc, &url.URL{})
				r.end = now()
				if err != nil {
					r.err = err.Error()
				} else if u != nil {
					r.host = u.String()
				} else {
					r.err = "nil host and nil error"
				}
				r.done = true
			}()
		}
		firstWave = false
	}
	nstim := 3 + c.Choose(8, "nstimuli")
	for i := 0; i < nstim; i++ {
		switch c.C.Weighted("stimulus", 4, 5, 2, 1, 1, 1, 1, 2, 1) {
		case 0:
			n := 1 + c.Choose(3, "nresolvers")
			desc = append(desc, fmt.Sprintf("resolve x%d", n))
			if firstWave && n >= 2 {
				c.Probe("racing-initial-load")
			}
			startResolvers(n)
		case 1:
			a := genAnnounce(c)
			annCluster = cluster
			if c.Choose(4, "ann-cluster") == 1 {
				annCluster = cluster2
			}
			desc = append(desc, fmt.Sprintf("announce %s/%s kind=%d %v", annCluster, a.node, a.kind, a.hosts))
			apply(a)
			annCluster = cluster
		case 2:
			d := time.Duration(1+c.Choose(12, "advance")) * time.Second
			desc = append(desc, fmt.Sprintf("advance %v", d))
			time.Sleep(d)
		case 3:
			s := schemeSets[c.Choose(len(schemeSets), "schemesN")]
			desc = append(desc, fmt.Sprintf("service schemes=%v", s))
			if len(s) == 0 {
				noPrio = true
			}
			for _, x := range s {
				everSchemes[x] = true
			}
			curSchemes = s
			z.Set("/d2/services/"+svc, svcJSONFor(s, curCluster))
		case 8:
			if curCluster == cluster {
				curCluster = cluster2
			} else {
				curCluster = cluster
			}
			desc = append(desc, "service moves to cluster "+curCluster)
			z.Set("/d2/services/"+svc, svcJSONFor(curSchemes, curCluster))
			c.Probe("service-moved-to-other-cluster")
		case 4:
			desc = append(desc, "drop connections")
			z.DropConnections()
			connFaults++
			c.Fault("conn-drop")
		case 5:
			desc = append(desc, "expire sessions")
			z.ExpireSessions()
			connFaults++
			c.Fault("session-expiry")
		case 6:
			op := []int32{4, 12}[c.Choose(2, "failop")]
			p := "/d2/uris/" + cluster
			if c.Bool("failchild") {
				p += "/" + nodePool[c.Choose(len(nodePool), "failnode")]
			}
			desc = append(desc, fmt.Sprintf("fail next op=%d %s", op, p))
			z.SetFailNext(op, p, fakezk.ErrOperationTimeout)
			connFaults++
			c.Fault("error-reply")
		case 7:
			desc = append(desc, "delete+recreate cluster node")
			z.Delete("/d2/uris/" + cluster)
			synctest.Wait()
			z.Set("/d2/uris/"+cluster, []byte{})
			c.Fault("cluster-node-deleted")
		}
		synctest.Wait()
	}
	// faults stop: let resyncs and timeouts run, then look again
	time.Sleep(40 * time.Second)
	synctest.Wait()
	c.SimTime = int64(now())
	workload := fmt.Sprintf("schemes=%v timeout=%v stimuli=%v", schemes, effTimeout, desc)
	c.Sample(workload)
	c.Case(strings.Join(desc, "|"))
	// ---- oracles
	outcomes := map[string]int{}
	for i, r := range recs {
		if !r.done {
			if connFaults == 0 {
				c.Fail("C19", "resolver-stuck", "resolver-stuck", "resolver %d started at %v never returned within %v of virtual time (no connection fault in this run) (%s)", i, r.start, now()-r.start, workload)
				return
			}
			c.Probe("resolver-stuck-after-connection-fault")
			continue
		}
		// generous on purpose: what is asserted is "bounded by the configured timeout", not how the implementation
		// splits it between the service load and the URI load
		if connFaults == 0 && r.end-r.start > 2*effTimeout+5*time.Second {
			c.Fail("C19", "resolver-late", "resolver-late", "resolver %d took %v of virtual time, initial timeout is %v (%s)", i, r.end-r.start, effTimeout, workload)
			return
		}
		if r.host != "" {
			if !everAnnounced[r.host] {
				c.Fail("C19", "unannounced-host", "unannounced-host", "resolver %d returned %s, which was never announced in ZooKeeper (%s)", i, r.host, workload)
				return
			}
			if u, err := url.Parse(r.host); err == nil && !noPrio && !everSchemes[u.Scheme] {
				c.Fail("C19", "scheme-never-allowed", "scheme-never-allowed", "resolver %d returned %s whose scheme was never among the prioritized schemes (%s)", i, r.host, workload)
				return
			}
		}
		if r.fresh {
			k := "host"
			if r.host == "" {
				k = "err:" + r.err
			}
			outcomes[k]++
		}
	}
	// C18's use in D2: resolvers racing on a fresh client share one initial load
	// (only where nothing could justify a second load: no connection fault, the service never moved between
	// clusters, and no resolver was told of a failed load - retrying a failed load would be legitimate)
	anyErr := false
	for _, r := range recs {
		if r.done && r.err != "" {
			anyErr = true
		}
	}
	moved := false
	for _, d := range desc {
		if strings.HasPrefix(d, "service moves") {
			moved = true
		}
	}
	if connFaults == 0 && !anyErr && !moved {
		c.Probe("single-initial-load-checked")
		for _, p := range []string{"/d2/services/" + svc, "/d2/uris/" + cluster, "/d2/uris/" + cluster2} {
			if n := z.Count(3, p); n > 1 {
				c.Fail("C18", "double-initial-load", "double-initial-load", "%d exists() requests for %s: racing resolvers ran the initial load more than once (%s)", n, p, workload)
				return
			}
		}
	}
	// convergence after faults stopped is measured, not asserted (C19 states a fold, not convergence)
	want := map[string]bool{}
	weights := map[string]float64{}
	for _, data := range z.Children("/d2/uris/" + curCluster) {
		var u struct{ Weights map[string]float64 }
		if json.Unmarshal(data, &u) == nil {
			for h, wt := range u.Weights {
				want[h] = true
				if wt > weights[h] {
					weights[h] = wt
				}
			}
		}
	}
	// what host selection may return now: hosts of the highest-priority scheme that has any host (every host when no
	// priorities are configured), and among them only positively weighted ones if there is one
	eligibleNow := map[string]bool{}
	pick := func(scheme string) bool {
		any := false
		for h := range want {
			if u, err := url.Parse(h); err == nil && (scheme == "" || u.Scheme == scheme) {
				eligibleNow[h] = true
				any = true
			}
		}
		return any
	}
	if len(curSchemes) == 0 {
		pick("")
	} else {
		for _, sc := range curSchemes {
			if pick(sc) {
				break
			}
		}
	}
	positive := false
	for h := range eligibleNow {
		if weights[h] > 0 {
			positive = true
		}
	}
	if positive {
		for h := range eligibleNow {
			if weights[h] <= 0 {
				delete(eligibleNow, h)
			}
		}
	}
	// when may the last resolution be judged against the tree? No connection fault, the service stayed on its
	// cluster, only valid announcements and deletions (an ignored update leaves the tree and the fold apart), and no
	// resolver of the run was told of a failed load (the library keeps a failed initial load)
	assertable := connFaults == 0
	for _, d := range desc {
		if strings.HasPrefix(d, "service moves") || strings.Contains(d, "kind=2") || strings.Contains(d, "kind=3") || strings.HasPrefix(d, "delete+recreate") {
			assertable = false
		}
	}
	for _, r := range recs {
		if !r.done || r.err != "" {
			assertable = false
		}
	}
	if len(recs) > 0 {
		// never call into the client from the bubble's main goroutine: a resolver that blocks for ever would keep
		// the bubble alive (the ZooKeeper client's ping timer never lets it fall idle) and hang the worker
		last := &resolveRec{start: now()}
		go func() {
			u, err := cl.ResolveHostnameAndContextForQuery(svc, &url.URL{})
			last.end = now()
			if err != nil {
				last.err = err.Error()
			} else if u != nil {
				last.host = u.String()
			}
			last.done = true
		}()
		time.Sleep(effTimeout + 5*time.Second)
		synctest.Wait()
		if !last.done {
			if connFaults == 0 {
				c.Fail("C19", "resolver-stuck", "resolver-stuck", "a resolver started after all stimuli (at %v) had not returned %v of virtual time later, initial timeout is %v (no connection fault in this run) (%s)", last.start, now()-last.start, effTimeout, workload)
				return
			}
			c.Probe("resolver-stuck-after-connection-fault")
		}
		var u *url.URL
		var err error
		if last.host != "" {
			u, _ = url.Parse(last.host)
		} else {
			err = fmt.Errorf("%s", last.err)
		}
		if assertable && last.done {
			c.Probe("final-resolution-judged-against-the-tree")
			switch {
			case last.host == "" && len(eligibleNow) > 0:
				c.Fail("C19", "fold-final-resolution", "fold-final-resolution:error", "fault-free run of valid announcements: %v after the last stimulus a resolution fails (%s) although ZooKeeper announces eligible hosts %v for schemes %v (%s)", now()-last.start, last.err, keysOf(eligibleNow), curSchemes, workload)
				return
			case last.host != "" && !eligibleNow[last.host]:
				c.Fail("C19", "fold-final-resolution", "fold-final-resolution:stale", "fault-free run of valid announcements: the resolution after the quiet period returned %s, which is not among the hosts ZooKeeper announces and host selection may choose now %v (schemes %v) (%s)", last.host, keysOf(eligibleNow), curSchemes, workload)
				return
			}
		}
		switch {
		case !last.done:
		case err == nil && u != nil && want[u.String()]:
			c.Probe("converged-host-is-current")
		case err == nil && u != nil:
			c.Probe("not-converged-stale-host")
		case len(want) == 0:
			c.Probe("converged-no-host")
		default:
			c.Probe("not-converged-error-despite-hosts")
		}
	}
	tr := z.Trace()
	h := fnv.New64a()
	for _, l := range tr {
		h.Write([]byte(l))
		h.Write([]byte{'\n'})
	}
	var rs []string
	for _, r := range recs {
		rs = append(rs, fmt.Sprintf("%v|%v|%s|%s", r.start, r.end, r.host, r.err))
	}
	sort.Strings(rs)
	h.Write([]byte(strings.Join(rs, "\n")))
	c.Digest(h.Sum64())
	if f := os.Getenv("S3_DUMP"); f != "" {
		// debugging aid for the determinism self-test: the full trace of one run
		_ = os.WriteFile(f, []byte(strings.Join(tr, "\n")+"\n--\n"+strings.Join(rs, "\n")+"\n"), 0o644)
	}
	conn.Close()
}

func keysOf(m map[string]bool) []string {
	var ks []string
	for k := range m {
		ks = append(ks, k)
	}
	sort.Strings(ks)
	return ks
}

func TestS3(t *testing.T) {
	harness.Main(t, map[string]harness.Scenario{"zk": zkrun, "zktap": zktap})
}
