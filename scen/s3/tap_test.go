//go:build go1.25

package s3

import (
	"encoding/json"
	"fmt"
	"hash/fnv"
	"net/url"
	"os"
	"runtime"
	"sort"
	"strings"
	"sync"
	"testing"
	"testing/synctest"
	"time"

	"github.com/PapaCharlie/go-restli/v2/d2"
	"github.com/go-zookeeper/zk"

	"verif/sim/fakezk"
	"verif/sim/harness"
)

// zktap: the real TreeCache over the simulated ZooKeeper produces the event history;
// a tap between TreeCache and the client's update loop records it. After every
// stimulus (at quiescence) the client's current snapshot must equal the fold of the
// history recorded so far, and every snapshot seen earlier must be unchanged.

func renderLive(m map[string]*d2.Uri) string {
	var nodes []string
	for k := range m {
		nodes = append(nodes, k)
	}
	sort.Strings(nodes)
	s := ""
	for _, k := range nodes {
		var hs []string
		if m[k] != nil {
			for u, w := range m[k].Weights {
				hs = append(hs, fmt.Sprintf("%s=%g", u.String(), w))
			}
		}
		sort.Strings(hs)
		s += k + "{" + strings.Join(hs, ";") + "}"
	}
	return s
}

type tapEvent struct {
	path string
	data []byte
	del  bool
}

// foldEvents is the reference model, written from the property text: last write per
// node wins, deletions remove, malformed or weight-less updates are ignored.
func foldEvents(evs []tapEvent, zkPath string) string {
	m := map[string]map[string]float64{}
	for _, e := range evs {
		p := strings.TrimPrefix(e.path, zkPath)
		if p == "" {
			continue
		}
		if e.del {
			delete(m, p)
			continue
		}
		var u struct {
			Weights    map[string]float64
			Properties map[string]json.RawMessage `json:"uriSpecificProperties"`
			Partitions map[string]json.RawMessage `json:"partitionDesc"`
		}
		if err := json.Unmarshal(e.data, &u); err != nil || len(u.Weights) == 0 {
			continue
		}
		// an announcement naming something that is not a URL is malformed as a whole
		bad := false
		for _, hs := range []func(func(string)){
			func(f func(string)) {
				for h := range u.Weights {
					f(h)
				}
			},
			func(f func(string)) {
				for h := range u.Properties {
					f(h)
				}
			},
			func(f func(string)) {
				for h := range u.Partitions {
					f(h)
				}
			},
		} {
			hs(func(h string) {
				if _, err := url.Parse(h); err != nil {
					bad = true
				}
			})
		}
		if bad {
			continue
		}
		m[p] = u.Weights
	}
	var nodes []string
	for k := range m {
		nodes = append(nodes, k)
	}
	sort.Strings(nodes)
	s := ""
	for _, k := range nodes {
		var hs []string
		for h, w := range m[k] {
			hs = append(hs, fmt.Sprintf("%s=%g", h, w))
		}
		sort.Strings(hs)
		s += k + "{" + strings.Join(hs, ";") + "}"
	}
	return s
}

// quiet: how long the simulator waits after the last stimulus before it asserts convergence. TreeCache retries a
// failed read after 10 s today; the bound is deliberately far above that (virtual time is cheap) so that a
// different retry policy does not turn into an alarm.
const quiet = 600 * time.Second

func zktap(c *harness.Ctx) {
	defer func() {
		if r := recover(); r != nil {
			msg := fmt.Sprint(r)
			if !strings.Contains(msg, "deadlock") && !strings.Contains(msg, "blocked") && !strings.Contains(msg, "bubble") {
				c.Fail("HARNESS", "bubble-panic", "bubble-panic", "%v", r)
			}
		}
	}()
	synctest.Test(c.T, func(t *testing.T) { tapBubble(c) })
}

func tapBubble(c *harness.Ctx) {
	pinRandomness(c)
	pre0 := runtime.VerifPreemptions
	defer func() {
		if runtime.VerifPreemptions > pre0 {
			c.Probe("waker-preempted-after-wake-up")
		}
	}()
	epoch := time.Now()
	z := fakezk.New()
	var lat []time.Duration
	for i := 0; i < 16; i++ {
		lat = append(lat, time.Duration(c.Choose(4, "latency"))*5*time.Millisecond)
	}
	li := 0
	z.Latency = func(op int32, path string) time.Duration { li++; return lat[li%len(lat)] }
	zkPath := d2.UrisPath(cluster)
	z.Set("/d2", nil)
	z.Set("/d2/uris", nil)
	z.Set(zkPath, []byte{})
	// nested=1: the third node of the pool lives below the first ("n1/d"). ZooKeeper creates no node without its parent
	// and deletes none that has children, so the stimulus does what a client would have to do: parent first on the
	// way in, child first on the way out (each its own transaction).
	nested := c.Cfg["nested"] != ""
	nodeName := func(n string) string {
		if nested && n == nodePool[2] {
			return nodePool[0] + "/d"
		}
		return n
	}
	apply := func(a announce) {
		p := zkPath + "/" + nodeName(a.node)
		if a.kind == 1 {
			if nested && a.node == nodePool[0] {
				z.Delete(p + "/d")
			}
			z.Delete(p)
			return
		}
		if nested && a.node == nodePool[2] && !z.Exists(zkPath+"/"+nodePool[0]) {
			z.Set(zkPath+"/"+nodePool[0], a.payload())
		}
		z.Set(p, a.payload())
	}
	var desc []string
	for i := 0; i < c.Choose(3, "npre"); i++ {
		a := genAnnounce(c)
		desc = append(desc, fmt.Sprintf("pre-announce %s kind=%d", nodeName(a.node), a.kind))
		apply(a)
	}
	conn, _, err := zk.Connect([]string{"127.0.0.1:2181"}, 10*time.Second, zk.WithDialer(z.Dial), zk.WithLogger(nolog{}))
	if err != nil {
		c.Fail("HARNESS", "zk-connect", "zk-connect", "%v", err)
		return
	}
	cl := new(d2.Client)
	sch := make(chan d2.TreeCacheEvent, 1)
	sdata := svcJSON(nil)
	sch <- d2.TreeCacheEvent{Path: d2.ServicesPath(svc), Data: &sdata}
	close(sch)
	cl.VerifServiceLoop(svc, sch)
	cl.VerifSeedUris(cluster)

	tcEvents := make(chan d2.TreeCacheEvent)
	loopCh := make(chan d2.TreeCacheEvent)
	var history []tapEvent
	var hmu sync.Mutex
	hist := func() []tapEvent {
		hmu.Lock()
		defer hmu.Unlock()
		return append([]tapEvent(nil), history...)
	}
	go cl.VerifUriLoop(cluster, loopCh)
	quit := make(chan struct{})
	go func() {
		defer close(loopCh) // ends the update loop
		for {
			var e d2.TreeCacheEvent
			select {
			case e = <-tcEvents:
			case <-quit:
				return
			}
			te := tapEvent{path: e.Path, del: e.Data == nil}
			if e.Data != nil {
				te.data = append([]byte(nil), (*e.Data)...)
			}
			hmu.Lock()
			history = append(history, te)
			hmu.Unlock()
			select {
			case loopCh <- e:
			case <-quit:
				return
			}
		}
	}()
	tc := d2.NewTreeCache(conn, zkPath, tcEvents)
	// whatever way the run ends: the connection is closed and the goroutines of this run are told to go (a worker
	// process executes tens of thousands of runs; what a run leaves behind stays reachable for ever)
	defer func() {
		conn.Close()
		go tc.Stop() // the loop may be busy; it is not waited for
		time.Sleep(time.Second)
		close(quit)
		synctest.Wait()
	}()
	synctest.Wait()

	type seen struct {
		id     interface{}
		live   map[string]*d2.Uri
		render string
	}
	var snaps []seen
	check := func(when string) bool {
		_, id, live := cl.VerifCurrent(svc, cluster)
		r := renderLive(live)
		if n := len(snaps); n == 0 || snaps[n-1].id != id {
			snaps = append(snaps, seen{id, live, r})
		}
		h := hist()
		want := foldEvents(h, zkPath)
		// The property speaks of the snapshot after the events, not of how soon after: an implementation may apply
		// events it has received a little later (batching). A snapshot that is behind is given the same bounded
		// quiet period as the end of the run to catch up before it counts as wrong; on code that applies every event
		// as it arrives this loop is never entered.
		for waited := time.Duration(0); r != want && waited < quiet; waited += time.Second {
			if waited == 0 {
				c.Probe("snapshot-behind-the-events-waited-for")
			}
			time.Sleep(time.Second)
			synctest.Wait()
			_, id, live = cl.VerifCurrent(svc, cluster)
			r = renderLive(live)
			if n := len(snaps); n == 0 || snaps[n-1].id != id {
				snaps = append(snaps, seen{id, live, r})
			}
			h = hist()
			want = foldEvents(h, zkPath)
		}
		if r != want {
			c.Fail("C19", "fold-treecache", "fold-treecache", "%s: the snapshot is %q, the fold of the %d events TreeCache emitted so far is %q; stimuli=%v", when, r, len(h), want, desc)
			return false
		}
		for i, s := range snaps {
			if now := renderLive(s.live); now != s.render {
				c.Fail("C19", "snapshot-mutated", "snapshot-mutated", "%s: snapshot #%d was %q when first seen and is %q now; stimuli=%v", when, i, s.render, now, desc)
				return false
			}
		}
		return true
	}
	if !check("after the initial load") {
		return
	}
	hold := c.Cfg["hold"] != ""
	pure := c.Cfg["pure"] != ""
	z.SetHold(hold)
	nstim := 3 + c.Choose(9, "nstimuli")
	for i := 0; i < nstim; i++ {
		w6, w7 := 0, 0
		if hold {
			w6, w7 = 6, 2
		}
		wf := 1
		if pure {
			wf = 0 // no connection faults: every run of this batch is asserted to converge
		}
		switch c.C.Weighted("stimulus", 8, 2, wf, wf, wf, 1, w6, w7) {
		case 6:
			// one watch notification reaches the client; further changes may land before the next one
			if z.DeliverOne() {
				desc = append(desc, "deliver one notification")
				c.Probe("notification-delivered-singly")
			} else {
				desc = append(desc, "deliver (none pending)")
			}
		case 7:
			desc = append(desc, "deliver all notifications")
			for z.DeliverOne() {
				synctest.Wait()
			}
		case 0:
			a := genAnnounce(c)
			desc = append(desc, fmt.Sprintf("announce %s kind=%d %v", nodeName(a.node), a.kind, a.hosts))
			apply(a)
		case 1:
			d := time.Duration(1+c.Choose(12, "advance")) * time.Second
			desc = append(desc, fmt.Sprintf("advance %v", d))
			time.Sleep(d)
		case 2:
			desc = append(desc, "drop connections")
			z.DropConnections()
			c.Fault("conn-drop")
		case 3:
			desc = append(desc, "expire sessions")
			z.ExpireSessions()
			c.Fault("session-expiry")
		case 4:
			op := []int32{4, 12}[c.Choose(2, "failop")]
			p := zkPath
			if c.Bool("failchild") {
				p += "/" + nodeName(nodePool[c.Choose(len(nodePool), "failnode")])
			}
			desc = append(desc, fmt.Sprintf("fail next op=%d %s", op, p))
			z.SetFailNext(op, p, fakezk.ErrOperationTimeout)
			c.Fault("error-reply")
		case 5:
			// two changes without waiting in between: TreeCache may coalesce them
			a, b := genAnnounce(c), genAnnounce(c)
			desc = append(desc, fmt.Sprintf("burst %s/%d %s/%d", nodeName(a.node), a.kind, nodeName(b.node), b.kind))
			apply(a)
			apply(b)
			c.Probe("burst-of-two-changes")
		}
		synctest.Wait()
		if !check(fmt.Sprintf("after stimulus %d (%s)", i, desc[len(desc)-1])) {
			return
		}
	}
	for z.DeliverOne() {
		synctest.Wait()
	}
	z.SetHold(false)
	time.Sleep(quiet)
	synctest.Wait()
	for z.DeliverOne() {
		synctest.Wait()
	}
	if !check("after faults stopped and the quiet period passed") {
		return
	}
	c.SimTime = int64(time.Since(epoch))
	history = hist()
	c.Sample(fmt.Sprintf("stimuli=%v events-emitted=%d snapshots=%d", desc, len(history), len(snaps)))
	c.Case(strings.Join(desc, "|"))
	if len(history) >= 4 {
		c.Probe("four-or-more-treecache-events")
	}
	if f := os.Getenv("S3_DUMP"); f != "" {
		_ = os.WriteFile(f, []byte(strings.Join(z.Trace(), "\n")+"\n"), 0o644)
	}
	// convergence (measured): does the view equal the valid announcements now in ZooKeeper?
	var now []tapEvent
	var walk func(dir string)
	walk = func(dir string) {
		for n, data := range z.Children(dir) {
			now = append(now, tapEvent{path: dir + "/" + n, data: data})
			walk(dir + "/" + n)
		}
	}
	walk(zkPath)
	sort.Slice(now, func(i, j int) bool { return now[i].path < now[j].path })
	faultFree, validOnly := true, true
	for _, d := range desc {
		if strings.HasPrefix(d, "drop") || strings.HasPrefix(d, "expire") || strings.HasPrefix(d, "fail") {
			faultFree = false
		}
		if strings.Contains(d, "kind=2") || strings.Contains(d, "kind=3") || strings.Contains(d, "/2") || strings.Contains(d, "/3") {
			validOnly = false
		}
		// watches are one-shot: a client may legitimately never see a value that was overwritten before
		// it looked. With only valid announcements and deletions the fold of the history is the current
		// tree however notifications coalesce; an ignored (malformed / weight-less) update breaks that
		// equivalence, so such histories are not asserted on
		if strings.Contains(d, "kind=2") || strings.Contains(d, "kind=3") || strings.Contains(d, "/2") || strings.Contains(d, "/3") {
			faultFree = false
		}
	}
	if view := snaps[len(snaps)-1].render; foldEvents(now, zkPath) == view {
		c.Probe("view-converged-to-zookeeper")
		if !faultFree {
			c.Probe("view-converged-after-connection-faults")
		}
	} else if validOnly {
		// Bounded liveness: every stimulus is over, every held notification delivered, 600 virtual seconds of
		// quiet have passed (TreeCache retries a failed read after 10 s, the ZooKeeper client reconnects within
		// about a second and re-registers its watches, which fire at once for whatever changed meanwhile). With
		// only valid announcements and deletions in the history its fold is the tree as it stands, whatever was
		// coalesced or lost on the way.
		kind := "fault-free run"
		if !faultFree {
			kind = "connection faults stopped 600 virtual seconds ago"
		}
		c.Fail("C19", "fold-zookeeper", "fold-zookeeper", "%s, all notifications delivered: the tracked announcements are %q but the fold of ZooKeeper's change history (= its current tree) is %q; TreeCache emitted %d events; stimuli=%v", kind, view, foldEvents(now, zkPath), len(history), desc)
		return
	} else {
		c.Probe("view-not-converged-history-with-ignored-updates")
	}
	h := fnv.New64a()
	for _, l := range z.Trace() {
		h.Write([]byte(l))
	}
	if f := os.Getenv("S3_DUMP"); f != "" {
		// debugging aid: the simulated ensemble's trace of this run
		_ = os.WriteFile(f, []byte(strings.Join(z.Trace(), "\n")+"\n"), 0o644)
	}
	for _, e := range history {
		h.Write([]byte(e.path))
		h.Write(e.data)
	}
	c.Digest(h.Sum64())
}
