// Scenario S2 (d2-feed): the real d2 update loops, copy-on-write snapshots, Uri
// decoding and host selection, fed through the same in-package entry points the
// repository's own tests use; ZooKeeper and TreeCache are replaced by a channel feed.
// Resolver tasks interleave with the update loops at every lazymap / sync operation;
// map iteration order and the random source are drawn from the choice stream.
package s2

import (
	"fmt"
	"math"
	"math/rand"
	"net/url"
	"sort"
	"strconv"
	"strings"
	"testing"

	"github.com/PapaCharlie/go-restli/v2/d2"

	"verif/sim/harness"
	"verif/sim/kern"
	"verif/sim/simrt"
)

const (
	service = "svc"
	cluster = "Clu"
)

type hw struct {
	u string
	w float64
}

type event struct {
	kind  int // 0 add/update 1 delete 2 malformed 3 weight-less 4 root-path
	node  string
	hosts []hw
	alt   int // which malformed shape
}

var kindNames = []string{"set", "delete", "malformed", "weightless", "rootpath"}

func (e event) String() string {
	s := kindNames[e.kind] + "(" + e.node
	for _, h := range e.hosts {
		s += fmt.Sprintf(" %s=%g", h.u, h.w)
	}
	return s + ")"
}

type model map[string]map[string]float64

func (m model) apply(e event) model {
	n := model{}
	for k, v := range m {
		n[k] = v
	}
	switch e.kind {
	case 0:
		hm := map[string]float64{}
		for _, h := range e.hosts {
			hm[h.u] = h.w
		}
		n["/"+e.node] = hm
	case 1:
		delete(n, "/"+e.node)
	}
	return n
}

func (m model) render() string {
	var nodes []string
	for k := range m {
		nodes = append(nodes, k)
	}
	sort.Strings(nodes)
	s := ""
	for _, k := range nodes {
		var hs []string
		for u, w := range m[k] {
			hs = append(hs, fmt.Sprintf("%s=%g", u, w))
		}
		sort.Strings(hs)
		s += k + "{" + strings.Join(hs, ";") + "}"
	}
	return s
}

func renderLive(m map[string]*d2.Uri) string {
	var nodes []string
	for k := range m {
		nodes = append(nodes, k)
	}
	sort.Strings(nodes)
	s := ""
	for _, k := range nodes {
		var hs []string
		if m[k] != nil {
			for u, w := range m[k].Weights {
				hs = append(hs, fmt.Sprintf("%s=%g", u.String(), w))
			}
		}
		sort.Strings(hs)
		s += k + "{" + strings.Join(hs, ";") + "}"
	}
	return s
}

func (e event) toTree() d2.TreeCacheEvent {
	path := d2.UrisPath(cluster) + "/" + e.node
	var data []byte
	switch e.kind {
	case 0:
		var parts []string
		for _, h := range e.hosts {
			parts = append(parts, fmt.Sprintf("%q: %s", h.u, strconv.FormatFloat(h.w, 'g', -1, 64)))
		}
		data = []byte(`{"weights": {` + strings.Join(parts, ", ") + `}, "clusterName": "` + cluster + `"}`)
	case 1:
		return d2.TreeCacheEvent{Path: path, Data: nil}
	case 2:
		// malformed payloads come in several shapes: cut-off JSON, and well-formed JSON in which one of
		// several hosts is not a URL (with further sections whose hosts do parse)
		switch len(e.node) + len(e.hosts) {
		default:
			data = []byte(`{"weights": {"http://broken:80": `)
		}
		if e.alt == 1 {
			data = []byte(`{"weights": {"http://m1:80": 1, "http://bad host:80:80": 1, "https://m2:443": 2}, "uriSpecificProperties": {"http://m1:80": {"com.linkedin.app.name": "x"}}, "partitionDesc": {"http://m1:80": {"0": {"weight": 1}}}}`)
		} else if e.alt == 2 {
			data = []byte(`{"weights": {"https://m3:443": 1, "http://[::1:80": 1}, "clusterName": "` + cluster + `"}`)
		}
	case 3:
		data = []byte(`{"weights": {}, "clusterName": "` + cluster + `", "partitionDesc": {"http://p:80": {"0": {"weight": 1}}}}`)
	case 4:
		path = d2.UrisPath(cluster)
		data = []byte(`{}`)
	}
	return d2.TreeCacheEvent{Path: path, Data: &data}
}

var schemeSets = [][]string{{}, {"https", "http"}, {"http"}, {"https"}, {"http", "https"}, {"ftp", "http"}}

func svcEvent(schemes []string) d2.TreeCacheEvent {
	q := make([]string, len(schemes))
	for i, s := range schemes {
		q[i] = strconv.Quote(s)
	}
	data := []byte(`{"serviceName": "` + service + `", "clusterName": "` + cluster + `", "prioritizedSchemes": [` + strings.Join(q, ",") + `]}`)
	return d2.TreeCacheEvent{Path: d2.ServicesPath(service), Data: &data}
}

var hostPool = []string{"http://h1:80", "https://h1:443", "http://h2:80", "https://h2:443", "http://h3:8080", "https://h4:443"}
var weightPool = []float64{1, 0, 2, 0.1, 0.3, 5, 0.7}
var nodePool = []string{"n1", "n2", "n3"}

func genEvent(c *harness.Ctx) event {
	e := event{node: nodePool[c.Choose(len(nodePool), "node")]}
	e.kind = c.C.Weighted("evkind", 8, 3, 2, 1, 1)
	if e.kind == 2 {
		e.alt = c.Choose(3, "malformed-shape")
	}
	if e.kind == 0 {
		n := 1 + c.Choose(3, "nhosts")
		used := map[string]bool{}
		for i := 0; i < n; i++ {
			u := hostPool[c.Choose(len(hostPool), "host")]
			if used[u] {
				continue
			}
			used[u] = true
			e.hosts = append(e.hosts, hw{u, weightPool[c.Choose(len(weightPool), "weight")]})
		}
	}
	return e
}

// ---- the random-source seam: a real (unsynchronised) source is stepped so that the
// race detector still sees what the shipped code would do; the value handed out is
// the simulator's.
type simSource struct {
	real rand.Source
	next func() int64
}

func (s *simSource) Int63() int64    { s.real.Int63(); return s.next() }
func (s *simSource) Seed(seed int64) { s.real.Seed(seed) }

// rand.Rand.Float64 is float64(Int63()) / 2^63 (and retries on 1.0): the largest value
// that maps below 1.0 is 2^63-1024, i.e. 1-2^-53.
const maxBelowOne = int64(1<<63 - 1024)

// ---- version tracking (kernel-side step hook) -----------------------------------------

type version struct {
	id     interface{}
	live   map[string]*d2.Uri
	render string
}
type tracker struct {
	uriVers []version
	svcVers []*d2.Service
	svcRend []string
	bad     string
}

//go:norace
func (t *tracker) cur() (int, int) { return len(t.uriVers) - 1, len(t.svcVers) - 1 }

//go:norace
func (t *tracker) setBad(s string) {
	if t.bad == "" {
		t.bad = s
	}
}

// observe runs after every step, on the kernel goroutine (token kernel) or on whichever task just yielded (bubble
// kernel). Reading the client's published state (VerifCurrent, renderLive) is instrumented on purpose: a later write
// of the repository into something it has published is a genuine race. The tracker's own fields are the harness's
// business and are touched only in //go:norace helpers, so that tasks taking turns at it create neither reports
// nor happens-before edges.
func (t *tracker) observe(cl *d2.Client) {
	svc, id, live := cl.VerifCurrent(service, cluster)
	r := renderLive(live)
	sr := "nil"
	if svc != nil {
		sr = strings.Join(svc.PrioritizedSchemes, ",")
	}
	t.record(svc, id, live, r, sr)
}

//go:norace
func (t *tracker) record(svc *d2.Service, id interface{}, live map[string]*d2.Uri, r, sr string) {
	if n := len(t.uriVers); n == 0 || t.uriVers[n-1].id != id {
		t.uriVers = append(t.uriVers, version{id, live, r})
	} else if r != t.uriVers[n-1].render {
		t.setBad(fmt.Sprintf("snapshot #%d changed in place after publication: was %q, now %q", n-1, t.uriVers[n-1].render, r))
	}
	if n := len(t.svcVers); n == 0 || t.svcVers[n-1] != svc {
		t.svcVers = append(t.svcVers, svc)
		t.svcRend = append(t.svcRend, sr)
	}
}

type resolveRec struct {
	u0, u1, s0, s1 int
	host           string
	err            string
	done           bool
}

// eligible returns the (url, weight) entries host selection may draw from.
func eligible(content map[string]map[string]float64, schemes []string) []hw {
	var all []hw
	for _, hm := range content {
		for u, w := range hm {
			all = append(all, hw{u, w})
		}
	}
	if len(schemes) == 0 {
		return all
	}
	for _, s := range schemes {
		var out []hw
		for _, h := range all {
			if pu, err := url.Parse(h.u); err == nil && pu.Scheme == s {
				out = append(out, h)
			}
		}
		if len(out) > 0 {
			return out
		}
	}
	return nil
}

// validOutcome: is (host, err) a legal result of selection on this snapshot?
func validOutcome(el []hw, host string, failed bool) bool {
	if failed {
		return len(el) == 0
	}
	anyPos := false
	for _, h := range el {
		if h.w > 0 {
			anyPos = true
		}
	}
	for _, h := range el {
		if h.u == host && (h.w > 0 || !anyPos) {
			return true
		}
	}
	return false
}

func parseRender(r string) map[string]map[string]float64 {
	out := map[string]map[string]float64{}
	for _, part := range strings.Split(r, "}") {
		if part == "" {
			continue
		}
		i := strings.IndexByte(part, '{')
		node := part[:i]
		hm := map[string]float64{}
		for _, h := range strings.Split(part[i+1:], ";") {
			if h == "" {
				continue
			}
			j := strings.LastIndexByte(h, '=')
			w, _ := strconv.ParseFloat(h[j+1:], 64)
			hm[h[:j]] = w
		}
		out[node] = hm
	}
	return out
}

func feed(c *harness.Ctx) {
	sim := c.NewSim()
	cl := new(d2.Client)
	// ---- pre-seed exactly as the repository's tests do (kernel goroutine, no tasks yet)
	schemes0 := schemeSets[c.Choose(len(schemeSets), "schemes0")]
	ch := make(chan d2.TreeCacheEvent, 1)
	ch <- svcEvent(schemes0)
	close(ch)
	cl.VerifServiceLoop(service, ch)
	cl.VerifSeedUris(cluster)

	m := model{}
	var history []event
	npre := c.Choose(3, "npre")
	nev := c.Choose(9, "nev")
	var pre, during []event
	for i := 0; i < npre; i++ {
		pre = append(pre, genEvent(c))
	}
	for i := 0; i < nev; i++ {
		during = append(during, genEvent(c))
	}
	if len(pre) > 0 {
		pch := make(chan d2.TreeCacheEvent, len(pre))
		for _, e := range pre {
			pch <- e.toTree()
		}
		close(pch)
		cl.VerifUriLoop(cluster, pch)
	}
	history = append(append(history, pre...), during...)
	// model prefixes
	prefixes := []string{m.render()}
	for _, e := range history {
		m = m.apply(e)
		prefixes = append(prefixes, m.render())
	}
	nsvc := c.Choose(3, "nsvc")
	svcSeq := [][]string{schemes0}
	for i := 0; i < nsvc; i++ {
		svcSeq = append(svcSeq, schemeSets[c.Choose(len(schemeSets), "schemesN")])
	}

	// ---- seams
	simrt.Order = kern.Choose
	defer func() { simrt.Order = nil }()
	src := &simSource{real: rand.NewSource(1)}
	src.next = func() int64 {
		switch kern.Choose(8, "rng-kind") {
		case 6:
			c.Probe("rng-boundary-0")
			return 0
		case 7:
			c.Probe("rng-boundary-max")
			return maxBelowOne
		default:
			return int64(kern.Choose(1<<20, "rng")) << 43
		}
	}
	d2.VerifSetRngSource(src)

	tr := &tracker{}
	tr.observe(cl)
	sim.SetStepHook(func() { tr.observe(cl) })

	// ---- tasks
	uch := make(chan d2.TreeCacheEvent, len(during)+1)
	for _, e := range during {
		uch <- e.toTree()
	}
	close(uch)
	sim.Go("uri-loop", func() { cl.VerifUriLoop(cluster, uch) })
	sch := make(chan d2.TreeCacheEvent, nsvc+1)
	for _, s := range svcSeq[1:] {
		sch <- svcEvent(s)
	}
	close(sch)
	if nsvc > 0 {
		sim.Go("svc-loop", func() { cl.VerifServiceLoop(service, sch) })
	}
	nres := c.Choose(4, "nresolvers")
	recs := make([][]resolveRec, nres)
	for r := 0; r < nres; r++ {
		r := r
		k := 1 + c.Choose(3, "nresolves")
		recs[r] = make([]resolveRec, k)
		sim.Go(fmt.Sprintf("resolver%d", r), func() {
			for i := range recs[r] {
				kern.Yield("before-resolve")
				rec := &recs[r][i]
				rec.u0, rec.s0 = tr.cur()
				h, err := cl.ResolveHostnameAndContextForQuery(service, nil)
				rec.u1, rec.s1 = tr.cur()
				if err != nil {
					rec.err = err.Error()
				} else if h != nil {
					rec.host = h.String()
				} else {
					rec.err = "nil host with nil error"
				}
				rec.done = true
				if kern.Tracing() {
					kern.Note("op-return", "resolve", fmt.Sprintf("host=%q err=%q uris#%d..%d svc#%d..%d", rec.host, rec.err, rec.u0, rec.u1, rec.s0, rec.s1))
				}
			}
		})
	}
	desc := fmt.Sprintf("schemes=%v pre=%v events=%v svc=%v resolvers=%d", schemes0, pre, during, svcSeq[1:], nres)
	c.Sample(desc)
	c.Case(fmt.Sprintf("%v|%v|%v", pre, during, svcSeq))
	sim.Run(20000)
	simrt.Order = nil

	if sim.Dead || sim.Budget {
		c.Fail("C19", "d2-deadlock", "d2-deadlock", "update loops / resolvers did not finish: %s (%s)", sim.DeadInfo, desc)
		return
	}
	for _, t := range sim.Tasks() {
		if t.Panic != nil {
			c.Fail("C19", "d2-panic", "d2-panic:"+t.Name[:3], "task %s panicked: %v\n%s\n%s", t.Name, t.Panic, t.PanicStk, desc)
			return
		}
	}
	tr.observe(cl)
	if tr.bad != "" {
		c.Fail("C19", "snapshot-mutated", "snapshot-mutated", "%s (%s)", tr.bad, desc)
		return
	}
	// (1) every published snapshot is the fold of a prefix, in order; the last is the full fold
	pi := 0
	for vi, v := range tr.uriVers {
		found := false
		for pi < len(prefixes) {
			if prefixes[pi] == v.render {
				found = true
				break
			}
			pi++
		}
		if !found {
			c.Fail("C19", "fold", "fold", "published snapshot #%d = %q is not the fold of any (later) prefix of the event history; prefixes=%q (%s)", vi, v.render, prefixes, desc)
			return
		}
	}
	if last := tr.uriVers[len(tr.uriVers)-1].render; last != prefixes[len(prefixes)-1] {
		c.Fail("C19", "fold-final", "fold-final", "after all %d events the snapshot is %q, the fold of the history is %q (%s)", len(history), last, prefixes[len(prefixes)-1], desc)
		return
	}
	// (2) snapshots handed out earlier are unchanged
	for vi, v := range tr.uriVers {
		if r := renderLive(v.live); r != v.render {
			c.Fail("C19", "snapshot-mutated", "snapshot-mutated", "snapshot #%d was %q when published and is %q now (%s)", vi, v.render, r, desc)
			return
		}
	}
	if len(tr.uriVers) >= 3 {
		c.Probe("three-or-more-snapshots")
	}
	// (3) each resolution is a legal selection on some snapshot/service current during the call
	for r := range recs {
		for i, rec := range recs[r] {
			if !rec.done {
				c.Fail("C19", "resolve-unfinished", "resolve-unfinished", "resolver %d call %d never returned", r, i)
				return
			}
			ok := false
			for u := rec.u0; u <= rec.u1 && !ok; u++ {
				content := parseRender(tr.uriVers[u].render)
				for s := rec.s0; s <= rec.s1 && !ok; s++ {
					var schemes []string
					if tr.svcRend[s] != "" {
						schemes = strings.Split(tr.svcRend[s], ",")
					}
					if validOutcome(eligible(content, schemes), rec.host, rec.host == "") {
						ok = true
					}
				}
			}
			if rec.u1 > rec.u0 || rec.s1 > rec.s0 {
				c.Probe("resolve-overlapped-update")
			}
			if !ok {
				sig := "selection"
				if rec.host == "" {
					sig = "selection-error-despite-eligible"
				}
				c.Fail("C19", "selection", sig, "resolver %d call %d returned host=%q err=%q, which is not a legal selection on any snapshot current during the call: uris #%d..#%d = %q, schemes #%d..#%d = %q (%s)",
					r, i, rec.host, rec.err, rec.u0, rec.u1, rendersOf(tr, rec.u0, rec.u1), rec.s0, rec.s1, tr.svcRend[rec.s0:rec.s1+1], desc)
				return
			}
		}
	}
	// (4) proportionality, deterministically: pinned map order, evenly spaced random values
	final := parseRender(tr.uriVers[len(tr.uriVers)-1].render)
	lastSchemes := svcSeq[len(svcSeq)-1]
	el := eligible(final, lastSchemes)
	var total float64
	want := map[string]float64{}
	for _, h := range el {
		total += h.w
		want[h.u] += h.w
	}
	if total > 0 {
		const N = 240
		i := 0
		draws := 0
		d2.VerifSetRngSource(&simSource{real: rand.NewSource(1), next: func() int64 {
			draws++
			v := int64((float64(i) + 0.5) / N * float64(uint64(1)<<63))
			return v
		}})
		got := map[string]int{}
		for i = 0; i < N; i++ {
			h, err := cl.ResolveHostnameAndContextForQuery(service, nil)
			if err != nil || h == nil {
				c.Fail("C19", "sweep-error", "selection-error-despite-eligible", "sweep draw %d/%d failed (%v) although eligible hosts %v exist (%s)", i, N, err, el, desc)
				return
			}
			got[h.String()]++
		}
		// How exact the comparison can be depends on how the implementation uses its random source. When it takes
		// exactly one value from the package's generator per resolution, the evenly spaced values make the counts
		// exact up to rounding at the boundaries. When it does anything else with it (seeds generators of its own,
		// draws several values), the sweep is a plain sample of N selections: the tolerance is then statistical
		// (six standard deviations of the binomial count, so that hundreds of thousands of sweeps stay quiet).
		exact := draws == N
		if exact {
			c.Probe("sweep-one-draw-per-resolution")
		} else {
			c.Probe("sweep-statistical-tolerance")
		}
		for u, w := range want {
			p := w / total
			exp := float64(N) * p
			tol := float64(len(el) + 1)
			if !exact {
				tol += 6 * math.Sqrt(float64(N)*p*(1-p))
			}
			if d := float64(got[u]) - exp; d > tol || d < -tol {
				c.Fail("C19", "proportion", "proportion", "host %s weight %g of %g: selected %d times in a sweep of %d (one draw per resolution: %v), expected %.1f ± %.1f; all=%v (%s)", u, w, total, got[u], N, exact, exp, tol, got, desc)
				return
			}
		}
		for u := range got {
			if _, ok := want[u]; !ok {
				c.Fail("C19", "proportion", "selection", "sweep selected %s which is not eligible %v (%s)", u, el, desc)
				return
			}
		}
		c.Probe("sweep-ran")
	}
}

func rendersOf(tr *tracker, a, b int) []string {
	var out []string
	for i := a; i <= b; i++ {
		out = append(out, tr.uriVers[i].render)
	}
	return out
}

func TestS2(t *testing.T) {
	harness.Main(t, map[string]harness.Scenario{"feed": feed})
}
