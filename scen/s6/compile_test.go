package s6

// C12's two clauses that are about Go source rather than bytes:
//
//   - gencompile: what the generator (built from /repo's working tree) produces from the simulator's own
//     manifests compiles against the runtime without manual edits;
//   - judgeEquivalence: when the bindings checked into the repository are not byte-identical to what the
//     current generator produces from the checked-in manifest, they still have to be EQUIVALENT — same
//     exported API, same encodings, decodings, equality and hashes (C12's words). A template change that
//     only moves code around is not a violation; one that changes what a type encodes to is.

import (
	"bytes"
	"fmt"
	"go/ast"
	"go/parser"
	"go/printer"
	"go/token"
	"os"
	"os/exec"
	"path/filepath"
	"sort"
	"strings"
	"sync"

	"verif/sim/harness"
)

func goRun(dir string, args ...string) (string, error) {
	cmd := exec.Command("go", args...)
	cmd.Dir = dir
	var b bytes.Buffer
	cmd.Stdout, cmd.Stderr = &b, &b
	err := cmd.Run()
	return b.String(), err
}

// scratchModule makes an empty copy of the scratch module (same module path, requirements and replacements as the
// one this test binary was built in): generated code placed below it resolves its own import paths.
func scratchModule(prefix string) (string, error) {
	dir, err := os.MkdirTemp(tmpRoot, prefix)
	if err != nil {
		return "", err
	}
	for _, f := range []string{"go.mod", "go.sum"} {
		data, err := os.ReadFile(filepath.Join(os.Getenv("VW_MODDIR"), f)) // the scratch module this binary was built in
		if err != nil {
			return "", fmt.Errorf("scratch module file %s: %v", f, err)
		}
		if err := os.WriteFile(filepath.Join(dir, f), data, 0644); err != nil {
			return "", err
		}
	}
	return dir, nil
}

func cleanupDir(dir string) {
	exec.Command("chmod", "-R", "u+w", dir).Run()
	os.RemoveAll(dir)
}

func firstCompileError(out string) (sig, lines string) {
	var keep []string
	for _, l := range strings.Split(out, "\n") {
		if strings.HasPrefix(l, "#") || strings.TrimSpace(l) == "" {
			continue
		}
		keep = append(keep, l)
		if sig == "" {
			// "fam/fam/things/resource.gr.go:12:3: undefined: x" -> "resource.gr.go"
			f := strings.SplitN(l, ":", 2)[0]
			sig = filepath.Base(f)
		}
		if len(keep) >= 12 {
			break
		}
	}
	return sig, strings.Join(keep, "\n")
}

// gencompile (C12): generate one of the simulator's manifests in canonical order and compile the result.
func gencompile(c *harness.Ctx) {
	if gensim == "" {
		c.Fail("HARNESS", "no-gensim", "no-gensim", "VW_GENSIM not set")
		return
	}
	mname := c.Cfg["m"]
	if mname == "" {
		mname = []string{"family", "small"}[c.Choose(2, "manifest")]
	}
	sub := map[string]string{"family": "fam", "small": "small"}[mname]
	if sub == "" {
		c.Fail("HARNESS", "gencompile-cfg", "gencompile-cfg", "unknown manifest %q", mname)
		return
	}
	mod, err := scratchModule("compile-")
	if err != nil {
		c.Fail("HARNESS", "tmp", "tmp", "%v", err)
		return
	}
	defer cleanupDir(mod)
	out := filepath.Join(mod, sub)
	placeCustom(mname, out)
	mp, deps := manifestPath(mname)
	r := runGen(append([]string{"gen", mp, out}, deps...), "", 0, nil, filepath.Join(mod, "gen.log"))
	c.Sample(fmt.Sprintf("compile manifest=%s fs-calls=%d", mname, r.calls))
	c.Case("compile|" + mname)
	if r.exit != 0 {
		c.Fail("C12", "generation-failed", "generation-failed:"+mname, "undisturbed generation of manifest %q failed (exit %d): %s", mname, r.exit, r.stderr)
		return
	}
	// the tree's root holds a package main of blank imports ("all imports", no main function): it is type-checked
	// (go vet), everything else is built
	list, err := goRun(mod, "list", "-f", `{{if ne .Name "main"}}{{.ImportPath}}{{end}}`, "./"+sub+"/...")
	if err != nil {
		sig, lines := firstCompileError(list)
		c.Fail("C12", "generated-does-not-compile", "generated-does-not-compile:"+mname+":"+sig, "the packages generated from manifest %q cannot be listed:\n%s", mname, lines)
		return
	}
	pkgs := strings.Fields(list)
	if len(pkgs) == 0 {
		c.Fail("HARNESS", "gencompile-empty", "gencompile-empty", "no packages generated from %q", mname)
		return
	}
	txt, err := goRun(mod, append([]string{"build"}, pkgs...)...)
	if err == nil {
		txt, err = goRun(mod, "vet", "./"+sub)
	}
	if err != nil {
		sig, lines := firstCompileError(txt)
		c.Fail("C12", "generated-does-not-compile", "generated-does-not-compile:"+mname+":"+sig, "the bindings generated from manifest %q do not compile against the runtime:\n%s", mname, lines)
		return
	}
	c.Probe("generated-bindings-compiled:" + mname)
}

// ---- equivalence of the checked-in bindings with a regeneration ----------------------------------------------

var (
	eqOnce   sync.Once
	eqKind   string // "", "api", "behaviour", "compile", "harness"
	eqDetail string
)

const genRoot = "github.com/PapaCharlie/go-restli/v2/restlidata/generated"

// apiListing renders the exported API of every package below dir, one line per item, sorted.
func apiListing(dir string) ([]string, error) {
	var out []string
	fset := token.NewFileSet()
	err := filepath.Walk(dir, func(p string, info os.FileInfo, err error) error {
		if err != nil || info.IsDir() || !strings.HasSuffix(p, ".go") || strings.HasSuffix(p, "_test.go") || strings.HasSuffix(p, "_test.gr.go") {
			return err
		}
		f, err := parser.ParseFile(fset, p, nil, 0)
		if err != nil {
			return err
		}
		rel, _ := filepath.Rel(dir, filepath.Dir(p))
		show := func(n interface{}) string {
			var b bytes.Buffer
			printer.Fprint(&b, fset, n)
			return strings.Join(strings.Fields(b.String()), " ")
		}
		for _, d := range f.Decls {
			switch d := d.(type) {
			case *ast.FuncDecl:
				if !d.Name.IsExported() {
					continue
				}
				recv := ""
				if d.Recv != nil && len(d.Recv.List) == 1 {
					recv = show(d.Recv.List[0].Type)
					if !ast.IsExported(strings.TrimLeft(strings.SplitN(recv, "[", 2)[0], "*")) {
						continue
					}
				}
				// parameter names are not API
				ft := *d.Type
				strip := func(fl *ast.FieldList) *ast.FieldList {
					if fl == nil {
						return nil
					}
					n := &ast.FieldList{}
					for _, f := range fl.List {
						k := len(f.Names)
						if k == 0 {
							k = 1
						}
						for i := 0; i < k; i++ {
							n.List = append(n.List, &ast.Field{Type: f.Type})
						}
					}
					return n
				}
				ft.Params, ft.Results = strip(ft.Params), strip(ft.Results)
				out = append(out, fmt.Sprintf("%s: func (%s) %s %s", rel, recv, d.Name.Name, show(&ft)))
			case *ast.GenDecl:
				for _, s := range d.Specs {
					switch s := s.(type) {
					case *ast.TypeSpec:
						if !s.Name.IsExported() {
							continue
						}
						if st, ok := s.Type.(*ast.StructType); ok {
							var fields []string
							for _, f := range st.Fields.List {
								if len(f.Names) == 0 {
									fields = append(fields, "embedded "+show(f.Type))
								}
								for _, n := range f.Names {
									if n.IsExported() {
										fields = append(fields, n.Name+" "+show(f.Type))
									}
								}
							}
							sort.Strings(fields)
							out = append(out, fmt.Sprintf("%s: type %s struct {%s}", rel, s.Name.Name, strings.Join(fields, "; ")))
						} else {
							out = append(out, fmt.Sprintf("%s: type %s %s", rel, s.Name.Name, show(s.Type)))
						}
					case *ast.ValueSpec:
						for i, n := range s.Names {
							if !n.IsExported() {
								continue
							}
							v := ""
							if d.Tok == token.CONST && i < len(s.Values) {
								v = " = " + show(s.Values[i])
							}
							out = append(out, fmt.Sprintf("%s: %s %s%s", rel, d.Tok, n.Name, v))
						}
					}
				}
			}
		}
		return nil
	})
	sort.Strings(out)
	return out, err
}

// judgeEquivalence is run (once per worker process) when the regenerated tree differs in bytes from the checked-in
// one. regenerated: relative path -> content of every *.gr.go the current generator produces.
func judgeEquivalence(regenerated map[string][]byte) (kind, detail string) {
	eqOnce.Do(func() {
		mod, err := scratchModule("equiv-")
		if err != nil {
			eqKind, eqDetail = "harness", err.Error()
			return
		}
		defer cleanupDir(mod)
		base := filepath.Join(repoV2, "restlidata", "generated")
		// two copies of the checked-in package tree under their own import paths: "old" as it is, "new" with the
		// generated files replaced by the regeneration (hand-written files of those packages stay)
		place := func(which string, over map[string][]byte) error {
			dst := filepath.Join(mod, which)
			rewrite := func(b []byte) []byte { return bytes.ReplaceAll(b, []byte(genRoot), []byte("vscratch/"+which)) }
			err := filepath.Walk(base, func(p string, info os.FileInfo, err error) error {
				if err != nil || info.IsDir() {
					return err
				}
				rel, _ := filepath.Rel(base, p)
				if !strings.HasSuffix(p, ".go") || strings.HasSuffix(p, "_test.go") || strings.HasPrefix(filepath.Base(p), "all_imports_test") {
					return nil
				}
				if over != nil && owned(rel) {
					return nil // comes from the regeneration
				}
				data, err := os.ReadFile(p)
				if err != nil {
					return err
				}
				os.MkdirAll(filepath.Dir(filepath.Join(dst, rel)), 0755)
				return os.WriteFile(filepath.Join(dst, rel), rewrite(data), 0644)
			})
			for rel, data := range over {
				if !strings.HasSuffix(rel, ".go") || strings.HasPrefix(filepath.Base(rel), "all_imports_test") {
					continue
				}
				os.MkdirAll(filepath.Dir(filepath.Join(dst, rel)), 0755)
				if e := os.WriteFile(filepath.Join(dst, rel), rewrite(data), 0644); e != nil {
					return e
				}
			}
			return err
		}
		if err := place("old", nil); err != nil {
			eqKind, eqDetail = "harness", err.Error()
			return
		}
		if err := place("new", regenerated); err != nil {
			eqKind, eqDetail = "harness", err.Error()
			return
		}
		if txt, err := goRun(mod, "build", "./old/..."); err != nil {
			eqKind, eqDetail = "harness", "the checked-in bindings do not build in the scratch module:\n"+txt
			return
		}
		if txt, err := goRun(mod, "build", "./new/..."); err != nil {
			_, lines := firstCompileError(txt)
			eqKind, eqDetail = "compile", lines
			return
		}
		oldAPI, err1 := apiListing(filepath.Join(mod, "old"))
		newAPI, err2 := apiListing(filepath.Join(mod, "new"))
		if err1 != nil || err2 != nil {
			eqKind, eqDetail = "harness", fmt.Sprint(err1, err2)
			return
		}
		om, nm := map[string]bool{}, map[string]bool{}
		for _, l := range oldAPI {
			om[strings.ReplaceAll(l, "vscratch/old", "<root>")] = true
		}
		for _, l := range newAPI {
			nm[strings.ReplaceAll(l, "vscratch/new", "<root>")] = true
		}
		var diffs []string
		for l := range om {
			if !nm[l] {
				diffs = append(diffs, "- (checked in only)  "+l)
			}
		}
		for l := range nm {
			if !om[l] {
				diffs = append(diffs, "+ (regenerated only) "+l)
			}
		}
		if len(diffs) > 0 {
			sort.Strings(diffs)
			if len(diffs) > 12 {
				diffs = diffs[:12]
			}
			eqKind, eqDetail = "api", strings.Join(diffs, "\n")
			return
		}
		// behaviour: a differential test over the types both trees define
		if err := writeDiffTest(mod); err != nil {
			eqKind, eqDetail = "harness", err.Error()
			return
		}
		txt, err := goRun(mod, "test", "-count=1", "./eqdiff/")
		if err != nil {
			var lines []string
			for _, l := range strings.Split(txt, "\n") {
				if strings.Contains(l, "EQDIFF") {
					lines = append(lines, strings.TrimSpace(l))
				}
			}
			if len(lines) == 0 {
				eqKind, eqDetail = "harness", "the differential test did not run:\n"+txt
				return
			}
			if len(lines) > 8 {
				lines = lines[:8]
			}
			eqKind, eqDetail = "behaviour", strings.Join(lines, "\n")
			return
		}
		if !strings.Contains(txt, "ok") {
			eqKind, eqDetail = "harness", "unexpected differential test output:\n"+txt
		}
	})
	return eqKind, eqDetail
}

// writeDiffTest writes ./eqdiff: a registry of the type pairs (old, new) found in the new tree and the generic
// differential test (eqdiff_test.go.txt beside this file, embedded below).
func writeDiffTest(mod string) error {
	fset := token.NewFileSet()
	type pkg struct {
		rel   string
		types []string
		ctors []string
	}
	pkgs := map[string]*pkg{}
	newRoot := filepath.Join(mod, "new")
	err := filepath.Walk(newRoot, func(p string, info os.FileInfo, err error) error {
		if err != nil || info.IsDir() || !strings.HasSuffix(p, ".go") {
			return err
		}
		f, err := parser.ParseFile(fset, p, nil, 0)
		if err != nil {
			return err
		}
		rel, _ := filepath.Rel(newRoot, filepath.Dir(p))
		pk := pkgs[rel]
		if pk == nil {
			pk = &pkg{rel: rel}
			pkgs[rel] = pk
		}
		for _, d := range f.Decls {
			switch d := d.(type) {
			case *ast.GenDecl:
				for _, s := range d.Specs {
					if ts, ok := s.(*ast.TypeSpec); ok && ts.Name.IsExported() && ts.TypeParams == nil {
						if _, isIface := ts.Type.(*ast.InterfaceType); !isIface {
							pk.types = append(pk.types, ts.Name.Name)
						}
					}
				}
			case *ast.FuncDecl:
				if d.Recv == nil && d.Name.IsExported() && strings.HasPrefix(d.Name.Name, "New") && strings.HasSuffix(d.Name.Name, "WithDefaultValues") &&
					d.Type.Params.NumFields() == 0 && d.Type.Results.NumFields() == 1 {
					pk.ctors = append(pk.ctors, d.Name.Name)
				}
			}
		}
		return nil
	})
	if err != nil {
		return err
	}
	var rels []string
	for r := range pkgs {
		rels = append(rels, r)
	}
	sort.Strings(rels)
	var b bytes.Buffer
	b.WriteString("package eqdiff\n\nimport (\n\t\"reflect\"\n")
	for i, r := range rels {
		fmt.Fprintf(&b, "\to%d %q\n\tn%d %q\n", i, "vscratch/old/"+filepath.ToSlash(r), i, "vscratch/new/"+filepath.ToSlash(r))
	}
	b.WriteString(")\n\nvar pairs = []pair{\n")
	for i, r := range rels {
		sort.Strings(pkgs[r].types)
		for _, t := range pkgs[r].types {
			fmt.Fprintf(&b, "\t{%q, reflect.TypeOf((*o%d.%s)(nil)).Elem(), reflect.TypeOf((*n%d.%s)(nil)).Elem()},\n", r+"."+t, i, t, i, t)
		}
	}
	b.WriteString("}\n\nvar ctors = []ctor{\n")
	for i, r := range rels {
		sort.Strings(pkgs[r].ctors)
		for _, f := range pkgs[r].ctors {
			fmt.Fprintf(&b, "\t{%q, func() interface{} { return o%d.%s() }, func() interface{} { return n%d.%s() }},\n", r+"."+f, i, f, i, f)
		}
	}
	b.WriteString("}\n")
	dir := filepath.Join(mod, "eqdiff")
	os.MkdirAll(dir, 0755)
	if err := os.WriteFile(filepath.Join(dir, "registry.go"), b.Bytes(), 0644); err != nil {
		return err
	}
	src, err := os.ReadFile(filepath.Join(famDir, "..", "scen", "s6", "eqdiff_test.go.txt"))
	if err != nil {
		return err
	}
	return os.WriteFile(filepath.Join(dir, "eqdiff_test.go"), src, 0644)
}
