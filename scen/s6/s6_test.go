// Scenario S6 (genfs): the code generator and its output-directory cleaner as
// simulated processes over a scratch directory. Every file-system call of the
// generator goes through sim/simos (ownership monitor evaluated at the instant of each
// destructive call; one call per process can be failed, torn or turned into a crash)
// and every range-over-map site through sim/simrt (order chosen by the simulator).
package s6

import (
	"bytes"
	"fmt"
	"os"
	"os/exec"
	"path/filepath"
	"sort"
	"strings"
	"sync"
	"testing"

	"verif/sim/harness"
)

var (
	gensim   = os.Getenv("VW_GENSIM")
	famDir   = os.Getenv("VW_FAMILY_DIR")
	repoV2   = os.Getenv("VW_REPO_V2")
	tmpRoot  = os.Getenv("VW_TMP")
	refMu    sync.Mutex
	refTrees = map[string]map[string][]byte{}
)

const suffix = ".gr.go"

// rootModule: this worker drives the ROOT module's generator (other spec format, other name for the file in which it
// records its input, no custom typerefs, no checked-in manifest)
var rootModule = os.Getenv("VW_MODULE") == "root"

var manifest = func() string {
	if rootModule {
		return "parsed-specs.gr.json"
	}
	return "go-restli-manifest.gr.json"
}()

func owned(p string) bool {
	b := filepath.Base(p)
	return strings.HasSuffix(b, suffix) || b == manifest
}

type procResult struct {
	exit      int
	stderr    string
	calls     int
	fired     bool
	monitor   []string
	callLines []string
}

type fault struct {
	at   int
	kind string
}

func runGen(args []string, cwd string, orderSeed uint64, f *fault, logFile string) procResult {
	os.Remove(logFile)
	cmd := exec.Command(gensim, args...)
	cmd.Env = append(os.Environ(), fmt.Sprintf("GENSIM_ORDER_SEED=%d", orderSeed), "GENSIM_LOG="+logFile, "GENSIM_MANIFEST_NAME="+manifest)
	if f != nil {
		cmd.Env = append(cmd.Env, fmt.Sprintf("GENSIM_FAIL_AT=%d", f.at), "GENSIM_FAIL_KIND="+f.kind)
	}
	if cwd != "" {
		cmd.Dir = cwd
	}
	var eb bytes.Buffer
	cmd.Stderr = &eb
	err := cmd.Run()
	r := procResult{stderr: eb.String()}
	if ee, ok := err.(*exec.ExitError); ok {
		r.exit = ee.ExitCode()
	} else if err != nil {
		r.exit = -1
		r.stderr += err.Error()
	}
	data, _ := os.ReadFile(logFile)
	for _, l := range strings.Split(string(data), "\n") {
		switch {
		case strings.HasPrefix(l, "CALL "):
			r.calls++
			r.callLines = append(r.callLines, l)
		case strings.HasPrefix(l, "FAULT "):
			r.fired = true
		case strings.HasPrefix(l, "VIOLATION "):
			r.monitor = append(r.monitor, l)
		}
	}
	return r
}

// readTree returns every file below dir (relative path -> content) and every directory.
func readTree(dir string) (files map[string][]byte, dirs map[string]bool) {
	files, dirs = map[string][]byte{}, map[string]bool{}
	filepath.Walk(dir, func(p string, info os.FileInfo, err error) error {
		if err != nil || p == dir {
			return nil
		}
		rel, _ := filepath.Rel(dir, p)
		if info.IsDir() {
			dirs[rel] = true
		} else {
			data, _ := os.ReadFile(p)
			files[rel] = data
		}
		return nil
	})
	return
}

func manifestPath(name string) (string, []string) {
	if rootModule {
		if name == "family" {
			return filepath.Join(famDir, "root.spec.json"), nil
		}
		if name == "clash" {
			return filepath.Join(famDir, "clash.root.spec.json"), nil
		}
		return filepath.Join(famDir, "small.root.spec.json"), nil
	}
	switch name {
	case "small":
		return filepath.Join(famDir, "small.manifest.json"), nil
	case "family":
		return filepath.Join(famDir, "family.manifest.json"), nil
	}
	return filepath.Join(repoV2, "restlidata", "generated", manifest), nil
}

// reference generates a manifest once per worker process without any disturbance.
func reference(c *harness.Ctx, name string) map[string][]byte {
	refMu.Lock()
	defer refMu.Unlock()
	if t, ok := refTrees[name]; ok {
		return t
	}
	dir, _ := os.MkdirTemp(tmpRoot, "ref-")
	defer os.RemoveAll(dir)
	mp, deps := manifestPath(name)
	placeCustom(name, filepath.Join(dir, "out"))
	r := runGen(append([]string{"gen", mp, filepath.Join(dir, "out")}, deps...), "", 0, nil, filepath.Join(dir, "log"))
	if r.exit != 0 {
		c.Fail("C12", "generation-failed", "generation-failed:"+name, "undisturbed generation of manifest %q failed (exit %d): %s", name, r.exit, r.stderr)
		return nil
	}
	files, _ := readTree(filepath.Join(dir, "out"))
	for p := range files {
		if !owned(p) {
			delete(files, p) // hand-written custom typeref sources are not the generator's output
		}
	}
	refTrees[name] = files
	return files
}

// placeCustom puts the family's hand-written custom typeref sources where the generator looks for
// them (beside the code it generates).
func placeCustom(manifestName, outDir string) {
	if manifestName != "family" || rootModule {
		return
	}
	os.MkdirAll(outDir, 0755)
	exec.Command("cp", "-r", filepath.Join(famDir, "custom")+"/.", outDir).Run()
}

var entryKinds = []string{"gen", "user", "other", "emptydir", "dir", "manifest"}

// buildTree creates a directory tree of depth <= 3 with <= 3 entries per level.
func buildTree(c *harness.Ctx, dir string, depth int, desc *[]string) {
	n := c.Choose(4, "entries")
	for i := 0; i < n; i++ {
		kind := entryKinds[c.Choose(len(entryKinds), "entry")]
		name := fmt.Sprintf("e%d", i)
		switch kind {
		case "gen":
			p := filepath.Join(dir, name+suffix)
			os.WriteFile(p, []byte("// generated "+name), 0444)
			*desc = append(*desc, p)
		case "user":
			p := filepath.Join(dir, name+".go")
			os.WriteFile(p, []byte("package user // "+p), 0644)
			*desc = append(*desc, p)
		case "other":
			p := filepath.Join(dir, []string{name + ".txt", name + ".gr.go.bak", "x" + suffix + ".orig", ".hidden", name + ".gr.json", "NOTES.gr.md", name + ".gr.go~", "gr.go", name + ".gr", "go-restli-manifest.gr.json.bak", name + ".gr.txt", "Custom.go"}[c.Choose(12, "othername")])
			os.WriteFile(p, []byte("other "+p), 0600)
			*desc = append(*desc, p)
		case "manifest":
			p := filepath.Join(dir, manifest)
			os.WriteFile(p, []byte("{}"), 0444)
			*desc = append(*desc, p)
		case "emptydir":
			p := filepath.Join(dir, name+"d")
			os.Mkdir(p, 0755)
			*desc = append(*desc, p+"/")
		case "dir":
			p := filepath.Join(dir, []string{name + "d", "fam", "things"}[c.Choose(3, "dirname")])
			os.Mkdir(p, 0755)
			*desc = append(*desc, p+"/")
			if depth < 3 {
				buildTree(c, p, depth+1, desc)
			}
		}
	}
}

func genfs(c *harness.Ctx) {
	if gensim == "" {
		c.Fail("HARNESS", "no-gensim", "no-gensim", "VW_GENSIM not set")
		return
	}
	work, err := os.MkdirTemp(tmpRoot, "genfs-")
	if err != nil {
		c.Fail("HARNESS", "tmp", "tmp", "%v", err)
		return
	}
	defer func() {
		exec.Command("chmod", "-R", "u+w", work).Run()
		os.RemoveAll(work)
	}()
	logFile := filepath.Join(work, "monitor.log")
	root := filepath.Join(work, "root")
	os.Mkdir(root, 0755)
	// the target: a directory inside root (present or absent), or "." with cwd = root/target
	targetMode := c.Choose(3, "target") // 0 present 1 absent 2 "."
	target := filepath.Join(root, "target")
	var desc []string
	if targetMode != 1 {
		os.Mkdir(target, 0755)
		buildTree(c, target, 1, &desc)
	}
	// a sibling that must never be touched
	os.WriteFile(filepath.Join(root, "sibling.go"), []byte("package sibling"), 0644)
	// a directory OUTSIDE the target that looks exactly like generated output, reachable through a symbolic link the
	// user keeps inside the target: nothing out there is the generator's, whatever it is called
	elsewhere, link := "", ""
	if targetMode != 1 && c.Choose(5, "symlink") == 4 {
		elsewhere = filepath.Join(root, "elsewhere")
		os.MkdirAll(filepath.Join(elsewhere, "pkg"), 0755)
		os.WriteFile(filepath.Join(elsewhere, "Other"+suffix), []byte("// generated by somebody else"), 0444)
		os.WriteFile(filepath.Join(elsewhere, manifest), []byte("{}"), 0444)
		os.WriteFile(filepath.Join(elsewhere, "pkg", "Deep"+suffix), []byte("// generated by somebody else"), 0444)
		os.WriteFile(filepath.Join(elsewhere, "notes.txt"), []byte("user notes"), 0644)
		link = filepath.Join(target, "linked")
		if c.Bool("symlink-relative") {
			os.Symlink(filepath.Join("..", "elsewhere"), link)
		} else {
			os.Symlink(elsewhere, link)
		}
		desc = append(desc, link+"@ -> elsewhere/")
		c.Probe("symlink-to-a-directory-outside-the-target")
	}
	elsewhereFiles, elsewhereDirs := map[string][]byte{}, map[string]bool{}
	if elsewhere != "" {
		elsewhereFiles, elsewhereDirs = readTree(elsewhere)
	}
	checkElsewhere := func(when, workload string) bool {
		if elsewhere == "" {
			return true
		}
		f, d := readTree(elsewhere)
		if !sameTree(elsewhereFiles, f) || !sameDirs(elsewhereDirs, d) {
			c.Fail("C20", "outside-target-touched", "outside-target-touched", "%s: the directory outside the target that a symbolic link inside it points to was changed (it had %d files and %d directories, now %d and %d) (%s)", when, len(elsewhereFiles), len(elsewhereDirs), len(f), len(d), workload)
			return false
		}
		if st, err := os.Lstat(link); err != nil || st.Mode()&os.ModeSymlink == 0 {
			c.Fail("C20", "foreign-file-removed", "foreign-file-removed:symlink", "%s: the user's symbolic link %s is gone (%s)", when, link, workload)
			return false
		}
		return true
	}
	for i := range desc {
		desc[i] = strings.TrimPrefix(desc[i], root+"/")
	}
	mname := []string{"small", "small", "restlidata", "family"}[c.Choose(4, "manifest")]
	if rootModule && mname == "restlidata" {
		mname = "small" // the root module has no checked-in manifest to regenerate from
	}
	if mname == "family" && !rootModule {
		// hand-written custom typeref implementations beside the generated code: foreign files
		placeCustom(mname, target)
		if targetMode == 1 {
			targetMode = 0
		}
		c.Probe("custom-typeref-sources-in-target")
	}
	ref := reference(c, mname)
	if ref == nil {
		return
	}
	// a user's non-empty directory sitting exactly where the generator will want to write a file: it may refuse
	// to generate, it must not clear the way
	collision := ""
	if c.Choose(6, "collide") == 5 {
		var gen []string
		for p := range ref {
			if strings.HasSuffix(p, suffix) {
				gen = append(gen, p)
			}
		}
		sort.Strings(gen)
		if len(gen) > 0 {
			collision = gen[c.Choose(len(gen), "collide-at")]
			os.MkdirAll(filepath.Join(target, collision), 0755)
			os.WriteFile(filepath.Join(target, collision, "notes.txt"), []byte("user notes in "+collision), 0644)
			desc = append(desc, "target/"+collision+"/notes.txt")
			if targetMode == 1 {
				targetMode = 0
			}
			c.Probe("user-directory-at-a-generated-file-path")
		}
	}
	preFiles, _ := readTree(root)
	foreign := map[string][]byte{}
	for p, d := range preFiles {
		if !owned(p) {
			foreign[p] = d
		}
	}
	mp, deps := manifestPath(mname)
	nops := 1 + c.Choose(4, "nops")
	var ops []string
	for i := 0; i < nops; i++ {
		ops = append(ops, []string{"clean", "gen"}[c.Choose(2, "op")])
	}
	// one fault for the whole workload (or none)
	faultOp := -1
	var flt *fault
	if c.Cfg["faults"] != "" && c.Choose(4, "fault?") != 0 {
		faultOp = c.Choose(nops, "fault-op")
		kinds := []string{"eacces", "enospc", "eio", "torn", "crash", "crash-torn", "crash-after"}
		flt = &fault{at: 1 + c.Choose(40, "fault-at"), kind: kinds[c.Choose(len(kinds), "fault-kind")]}
		if c.Choose(3, "fault-late") == 2 {
			flt.at = 40 + c.Choose(200, "fault-at-late")
		}
	}
	orderSeed := uint64(0)
	if c.Cfg["order"] != "" {
		orderSeed = 1 + uint64(c.Choose(1<<30, "order-seed"))
	}
	workload := fmt.Sprintf("target=%s manifest=%s ops=%v fault=%v@op%d tree=%v", []string{"present", "absent", "dot"}[targetMode], mname, ops, flt, faultOp, desc)
	c.Sample(workload)
	c.Case(fmt.Sprintf("%d|%s|%v|%v", targetMode, mname, ops, desc))

	checkForeign := func(when string) bool {
		files, dirs := readTree(root)
		for p, d := range foreign {
			got, ok := files[p]
			if !ok {
				c.Fail("C20", "foreign-file-removed", "foreign-file-removed:"+classOf(p), "%s: %s, which the generator does not own, is gone (%s)", when, p, workload)
				return false
			}
			if !bytes.Equal(got, d) {
				c.Fail("C20", "foreign-file-changed", "foreign-file-changed:"+classOf(p), "%s: %s, which the generator does not own, was modified (%s)", when, p, workload)
				return false
			}
			for dir := filepath.Dir(p); dir != "." && dir != "/"; dir = filepath.Dir(dir) {
				if !dirs[dir] {
					c.Fail("C20", "foreign-dir-removed", "foreign-dir-removed", "%s: directory %s still has a non-owned descendant but is gone (%s)", when, dir, workload)
					return false
				}
			}
		}
		return true
	}

	for i, op := range ops {
		var f *fault
		if i == faultOp {
			f = flt
		}
		var r procResult
		cwd, tgt := "", target
		if targetMode == 2 {
			cwd, tgt = target, "."
		}
		switch op {
		case "clean":
			r = runGen([]string{"clean", tgt}, cwd, orderSeed, f, logFile)
		case "gen":
			r = runGen(append([]string{"gen", mp, tgt}, deps...), cwd, orderSeed, f, logFile)
		}
		when := fmt.Sprintf("after op %d (%s, exit %d, %d fs calls, fault fired=%v)", i, op, r.exit, r.calls, r.fired)
		if r.fired {
			c.Fault(f.kind)
			if strings.HasPrefix(f.kind, "crash") {
				c.Probe("crash-mid-" + op)
			}
		}
		if len(r.monitor) > 0 {
			c.Fail("C20", "monitor", "monitor:"+monitorSig(r.monitor[0]), "%s: the ownership monitor flagged a destructive call: %s (%s)", when, r.monitor[0], workload)
			return
		}
		if !checkForeign(when) || !checkElsewhere(when, workload) {
			return
		}
		crashed := r.fired && strings.HasPrefix(f.kind, "crash")
		if crashed {
			if r.exit != 137 {
				c.Fail("HARNESS", "crash-exit", "crash-exit", "%s: expected exit 137", when)
				return
			}
			continue // the workload goes on after the "restart"
		}
		if r.exit != 0 && !r.fired && collision != "" && op == "gen" {
			// it cannot write there without destroying what the user keeps there: refusing is right
			c.Probe("generation-refused-over-user-directory")
			continue
		}
		if r.exit != 0 && !r.fired {
			c.Fail("C20", "undisturbed-op-failed", "undisturbed-op-failed:"+op+":"+errClass(r.stderr), "%s: an operation without injected fault failed: %s (%s)", when, strings.TrimSpace(r.stderr), workload)
			return
		}
		if r.exit == 0 {
			files, _ := readTree(target)
			switch op {
			case "clean":
				for p := range files {
					if owned(p) {
						c.Fail("C20", "clean-incomplete", "clean-incomplete", "%s: clean reported success but %s is still there (%s)", when, p, workload)
						return
					}
				}
				// idempotence: a second clean changes nothing
				before, bdirs := readTree(root)
				r2 := runGen([]string{"clean", tgt}, cwd, orderSeed, nil, logFile)
				after, adirs := readTree(root)
				if r2.exit != 0 || !sameTree(before, after) || !sameDirs(bdirs, adirs) || len(r2.monitor) > 0 {
					c.Fail("C20", "clean-not-idempotent", "clean-not-idempotent", "%s: a second clean changed the tree or failed (exit %d, %v) (%s)", when, r2.exit, r2.monitor, workload)
					return
				}
				c.Probe("clean-idempotence-checked")
			case "gen":
				// success must be complete: exactly the files of an undisturbed generation
				for p, d := range ref {
					got, ok := files[p]
					if !ok {
						c.Fail("C20", "generation-incomplete", "generation-incomplete", "%s: generation reported success but %s is missing (%s)", when, p, workload)
						return
					}
					if !bytes.Equal(got, d) {
						prop, o := "C12", "generation-differs"
						if r.fired {
							prop, o = "C20", "error-swallowed"
						}
						c.Fail(prop, o, o+":"+classOf(p), "%s: %s differs from an undisturbed generation (order seed %d) (%s)", when, p, orderSeed, workload)
						return
					}
				}
				for p := range files {
					if _, ok := ref[p]; !ok && owned(p) {
						c.Fail("C20", "stale-generated-file", "stale-generated-file", "%s: generated-looking file %s survived regeneration (%s)", when, p, workload)
						return
					}
				}
				c.Probe("regeneration-compared")
				if r.fired {
					c.Probe("fault-absorbed-with-complete-result")
				}
			}
		} else {
			c.Probe("injected-error-returned")
		}
	}
}

func sameTree(a, b map[string][]byte) bool {
	if len(a) != len(b) {
		return false
	}
	for k, v := range a {
		if w, ok := b[k]; !ok || !bytes.Equal(v, w) {
			return false
		}
	}
	return true
}

func sameDirs(a, b map[string]bool) bool {
	if len(a) != len(b) {
		return false
	}
	for k := range a {
		if !b[k] {
			return false
		}
	}
	return true
}

func classOf(p string) string {
	b := filepath.Base(p)
	switch {
	case strings.HasSuffix(b, ".go") && !strings.HasSuffix(b, suffix):
		return "user-go-file"
	case strings.HasSuffix(b, suffix):
		return "generated"
	case b == manifest:
		return "manifest"
	}
	return "other-file"
}

func monitorSig(line string) string {
	f := strings.Fields(line)
	if len(f) >= 3 {
		return f[1] + ":" + classOf(f[2])
	}
	return "?"
}

func errClass(s string) string {
	switch {
	case strings.Contains(s, "permission denied"):
		return "eacces"
	case strings.Contains(s, "not empty"):
		return "enotempty"
	case strings.Contains(s, "is a directory"):
		return "eisdir"
	case strings.Contains(s, "not a directory"):
		return "enotdir"
	}
	return "other"
}

// gendet (C12): the generator's output does not depend on map iteration order; the
// checked-in bindings are what the current generator produces from the checked-in
// manifest.
func gendet(c *harness.Ctx) {
	if gensim == "" {
		c.Fail("HARNESS", "no-gensim", "no-gensim", "VW_GENSIM not set")
		return
	}
	mname := []string{"small", "family", "restlidata"}[c.Choose(3, "manifest")]
	if rootModule && mname == "restlidata" {
		// instead of the checked-in manifest (the root module has none): two types of one name in a namespace cycle
		mname = "clash"
	}
	ref := reference(c, mname)
	if ref == nil {
		return
	}
	work, _ := os.MkdirTemp(tmpRoot, "gendet-")
	defer func() {
		exec.Command("chmod", "-R", "u+w", work).Run()
		os.RemoveAll(work)
	}()
	seed := 1 + uint64(c.Choose(1<<30, "order-seed"))
	mp, deps := manifestPath(mname)
	stats := filepath.Join(work, "stats")
	os.Setenv("GENSIM_STATS", stats)
	placeCustom(mname, filepath.Join(work, "out"))
	r := runGen(append([]string{"gen", mp, filepath.Join(work, "out")}, deps...), "", seed, nil, filepath.Join(work, "log"))
	os.Unsetenv("GENSIM_STATS")
	c.Sample(fmt.Sprintf("manifest=%s order-seed=%d fs-calls=%d", mname, seed, r.calls))
	c.Case(fmt.Sprintf("%s|%d", mname, seed))
	if r.exit != 0 {
		c.Fail("C12", "generation-failed", "generation-failed:"+mname, "generation of %q with map order seed %d failed (exit %d): %s", mname, seed, r.exit, r.stderr)
		return
	}
	if data, err := os.ReadFile(stats); err == nil {
		var sites, permuted, unordered int
		fmt.Sscan(string(data), &sites, &permuted, &unordered)
		if permuted > 0 {
			c.Probe("generator-ran-with-permuted-map-order")
		}
		if unordered > 0 {
			c.Probe("map-range-with-uncontrolled-key-type")
		}
	}
	files, _ := readTree(filepath.Join(work, "out"))
	var names []string
	for p := range ref {
		names = append(names, p)
	}
	sort.Strings(names)
	for _, p := range names {
		got, ok := files[p]
		if !ok {
			c.Fail("C12", "nondeterministic-fileset", "nondeterministic-fileset", "manifest %q, map order seed %d: %s is not generated (it is with canonical order)", mname, seed, p)
			return
		}
		if !bytes.Equal(got, ref[p]) {
			c.Fail("C12", "nondeterministic-output", "nondeterministic-output:"+filepath.Base(p), "manifest %q: %s differs between canonical map order and order seed %d:\n%s", mname, p, seed, firstDiff(ref[p], got))
			return
		}
	}
	for p := range files {
		if _, ok := ref[p]; !ok && owned(p) {
			c.Fail("C12", "nondeterministic-fileset", "nondeterministic-fileset", "manifest %q, map order seed %d: extra file %s", mname, seed, p)
			return
		}
	}
	if mname == "restlidata" {
		// regeneration equivalence with the checked-in bindings
		base := filepath.Join(repoV2, "restlidata", "generated")
		differs := ""
		for _, p := range names {
			if !owned(p) || strings.HasPrefix(filepath.Base(p), "all_imports_test") {
				continue
			}
			want, err := os.ReadFile(filepath.Join(base, p))
			if err != nil {
				c.Fail("C12", "checked-in-missing", "checked-in-missing", "the generator produces %s from the checked-in manifest, but it is not checked in", p)
				return
			}
			if !bytes.Equal(want, ref[p]) && differs == "" {
				differs = fmt.Sprintf("%s, %s", p, firstDiff(want, ref[p]))
			}
		}
		if differs != "" || os.Getenv("VW_FORCE_EQUIV") != "" {
			// not the same bytes: C12 asks for equivalence (same exported API, encodings, decodings, equality,
			// hashes), which is judged on the compiled code
			switch kind, detail := judgeEquivalence(ref); kind {
			case "":
				c.Probe("checked-in-bytes-differ-but-equivalent")
			case "compile":
				c.Fail("C12", "generated-does-not-compile", "generated-does-not-compile:restlidata", "what the current generator produces from the checked-in manifest does not compile:\n%s", detail)
				return
			case "api":
				c.Fail("C12", "checked-in-differs", "checked-in-differs:api", "the checked-in bindings and a regeneration from the checked-in manifest export different APIs (first byte difference: %s):\n%s", differs, detail)
				return
			case "behaviour":
				c.Fail("C12", "checked-in-differs", "checked-in-differs:behaviour", "the checked-in bindings and a regeneration from the checked-in manifest behave differently (first byte difference: %s):\n%s", differs, detail)
				return
			default:
				c.Fail("HARNESS", "equivalence", "equivalence", "%s", detail)
				return
			}
		} else {
			c.Probe("checked-in-bindings-identical")
		}
		c.Probe("checked-in-bindings-compared")
	}
}

func firstDiff(a, b []byte) string {
	la, lb := strings.Split(string(a), "\n"), strings.Split(string(b), "\n")
	for i := 0; i < len(la) && i < len(lb); i++ {
		if la[i] != lb[i] {
			return fmt.Sprintf("line %d:\n- %s\n+ %s", i+1, la[i], lb[i])
		}
	}
	return fmt.Sprintf("length %d vs %d lines", len(la), len(lb))
}

func TestS6(t *testing.T) {
	harness.Main(t, map[string]harness.Scenario{"genfs": genfs, "gendet": gendet, "gencompile": gencompile})
}
